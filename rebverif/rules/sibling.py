"""Sibling isomorphism: two functions (or two blocks) that implement the same thing for different owners must be
equal statement by statement under a renaming; admitted differences are frozen with a reason."""
import difflib
import re

from .. import cfront
from ..cfront import strip, walk, toks, render, is_assign


def flat(node, rename=None, out=None, depth=0):
    """Flatten a statement tree into a list of canonical strings (structure markers included)."""
    if out is None:
        out = []
    rn = (lambda s: _rename(s, rename)) if rename else (lambda s: s)
    k = node.get('kind')
    if k == 'CompoundStmt':
        for c in node.get('inner', []):
            flat(c, rename, out, depth)
    elif k == 'DeclStmt':
        for d in node.get('inner', []):
            if d.get('kind') == 'VarDecl':
                init = [c for c in d.get('inner', []) if c.get('kind') not in ('FullComment',)]
                if init and 'init' in d:
                    out.append(rn('decl %s = %s' % (d['name'], render(init[-1]))))
                else:
                    out.append(rn('decl %s' % d['name']))
    elif k in ('ForStmt', 'WhileStmt'):
        ch = node.get('inner', [])
        hdr = []
        for c in ch[:-1]:
            if c and c.get('kind'):
                if c.get('kind') == 'DeclStmt':
                    tmp = []
                    flat(c, None, tmp)
                    hdr.append(','.join(tmp))
                else:
                    hdr.append(render(c))
        out.append(rn('%s(%s){' % ('for' if k == 'ForStmt' else 'while', ';'.join(hdr))))
        if ch and ch[-1]:
            flat(ch[-1], rename, out, depth + 1)
        out.append('}')
    elif k == 'DoStmt':
        out.append('do{')
        flat(node['inner'][0], rename, out, depth + 1)
        out.append(rn('}while(%s)' % render(node['inner'][1])))
    elif k == 'IfStmt':
        ch = node['inner']
        out.append(rn('if(%s){' % render(ch[0])))
        flat(ch[1], rename, out, depth + 1)
        if len(ch) > 2:
            out.append('}else{')
            flat(ch[2], rename, out, depth + 1)
        out.append('}')
    elif k == 'SwitchStmt':
        out.append(rn('switch(%s){' % render(node['inner'][0])))
        for c in node['inner'][1:]:
            flat(c, rename, out, depth + 1)
        out.append('}')
    elif k == 'CaseStmt':
        out.append(rn('case %s:' % render(node['inner'][0])))
        for c in node['inner'][1:]:
            flat(c, rename, out, depth)
    elif k == 'DefaultStmt':
        out.append('default:')
        for c in node.get('inner', []):
            flat(c, rename, out, depth)
    elif k == 'ReturnStmt':
        out.append(rn('return %s' % (render(node['inner'][0]) if node.get('inner') else '')))
    elif k in ('BreakStmt', 'ContinueStmt'):
        out.append(k[:-4].lower())
    elif k == 'NullStmt':
        pass
    elif k:
        out.append(rn(render(node)))
    return out


def _rename(s, rename):
    for a, b in rename:
        s = re.sub(a, b, s)
    return s


def diff(a, b):
    """Lists of (tag, a_lines, b_lines) where the flattened statement lists differ."""
    sm = difflib.SequenceMatcher(a=a, b=b, autojunk=False)
    out = []
    for tag, i1, i2, j1, j2 in sm.get_opcodes():
        if tag != 'equal':
            out.append((tag, a[i1:i2], b[j1:j2]))
    return out
