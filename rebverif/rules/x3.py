"""X3 - dispatch exhaustiveness: every switch over an enum of rebound.h handles every enumerator (or its default
reports an error)."""
import re

from ..core import AnalysisError
from .. import cfront
from ..cfront import strip, walk, callee_name, qtype, render, line_of

ERROR_CALLS = {'reb_simulation_error', 'reb_simulation_warning', 'reb_exit', 'printf', 'fprintf', 'exit', 'abort'}


def enum_of_expr(tu, e):
    """Enumerator list [(name, value)] of the enum type of expression e, or None."""
    e = strip(e)
    qt = qtype(e)
    m = re.search(r'enum \((?:unnamed|anonymous) enum at [^:]*?([^/:]+):(\d+):\d+\)', qt)
    if m:
        return tu.enum_types.get('<anon@%s:%s>' % (m.group(1), m.group(2))), qt
    m = re.match(r'^(?:const )?enum (\w+)$', qt)
    if m:
        return tu.enum_types.get(m.group(1)), qt
    return None, qt


def switches(tu, fn):
    out = []
    for n in walk(cfront.body(fn)):
        if n.get('kind') != 'SwitchStmt':
            continue
        cond = [c for c in n['inner'] if c.get('kind') not in ('CompoundStmt',)][0]
        vals, qt = enum_of_expr(tu, cond)
        body = n['inner'][-1]
        labels = set()
        intlabels = set()
        default = None

        def scan(node, top=True):
            nonlocal default
            for c in node.get('inner', []) or []:
                if not isinstance(c, dict):
                    continue
                k = c.get('kind')
                if k == 'SwitchStmt':
                    continue   # nested switch has its own labels
                if k == 'CaseStmt':
                    for x in walk(c['inner'][0]):
                        if x.get('kind') == 'DeclRefExpr' and x['referencedDecl'].get('kind') == 'EnumConstantDecl':
                            labels.add(x['referencedDecl']['name'])
                        if x.get('kind') == 'IntegerLiteral':
                            intlabels.add(int(x['value']))
                        if x.get('kind') == 'ConstantExpr' and 'value' in x:
                            try:
                                intlabels.add(int(x['value']))
                            except ValueError:
                                pass
                    scan(c)
                elif k == 'DefaultStmt':
                    default = c
                    scan(c)
                else:
                    scan(c)
        scan(body)
        out.append({'node': n, 'cond': cond, 'enum': vals, 'qt': qt, 'labels': labels, 'intlabels': intlabels, 'default': default})
    return out


def default_reports_error(sw):
    d = sw['default']
    if d is None:
        return False
    # statements under default up to the next break
    for x in walk(d):
        if x.get('kind') == 'CallExpr' and callee_name(x) in ERROR_CALLS:
            return True
    return False


def default_does_work(sw):
    d = sw['default']
    if d is None:
        return False
    for x in walk(d):
        if x.get('kind') in ('CallExpr',) or cfront.is_assign(x) or x.get('kind') == 'ReturnStmt':
            return True
    return False


def check(ctx, rule, cfiles, exceptions=None, only_funcs=None, member_filter=None):
    """exceptions: {(function, enumerator): reason}."""
    exceptions = exceptions or {}
    tus = cfront.load_tus(cfiles)
    n = 0
    samples = []
    for c in cfiles:
        tu = tus[c]
        for fname, fn in sorted(tu.funcs.items()):
            if cfront.basename(fn.get('_locfile') or fn.get('_file')) != c:
                continue
            if only_funcs is not None and fname not in only_funcs:
                continue
            for sw in switches(tu, fn):
                if not sw['enum']:
                    continue
                condtxt = render(sw['cond'])
                if member_filter and not member_filter(condtxt):
                    continue
                n += 1
                names = [e for e, _ in sw['enum']]
                byval = {v: e for e, v in sw['enum']}
                handled = set(sw['labels']) | {byval[v] for v in sw['intlabels'] if v in byval}
                missing = [e for e in names if e not in handled]
                where = 'src/%s:%s %s' % (c, line_of(sw['node']), fname)
                if len(samples) < 6:
                    samples.append('%s switch(%s): %d/%d enumerators, default=%s' % (where, condtxt, len(names) - len(missing), len(names),
                                                                                     'error' if default_reports_error(sw) else ('yes' if sw['default'] else 'no')))
                if not missing:
                    continue
                if default_reports_error(sw) or default_does_work(sw):
                    continue
                for e in missing:
                    if (fname, e) in exceptions:
                        continue
                    ctx.report(rule, '%s:switch(%s):%s' % (fname, condtxt, e), where,
                               'switch over %s has no case for %s and no default that reports an error: selecting it silently does nothing here'
                               % (condtxt, e))
    return n, samples


# (function, enumerator) -> reason the enumerator legitimately has no case there
EXCEPTIONS = {
    ('reb_boundary_check', 'REB_BOUNDARY_NONE'): 'no boundary: nothing to check',
    ('reb_integrator_part1', 'REB_INTEGRATOR_NONE'): 'the NONE integrator has no first half step (time is advanced in part2)',
    ('reb_simulation_synchronize', 'REB_INTEGRATOR_NONE'): 'nothing to synchronise',
}
for _t in ('LF', 'LF4', 'LF6', 'LF8', 'LF4_2', 'LF8_6_4'):
    EXCEPTIONS[('reb_integrator_eos_preprocessor', 'REB_EOS_' + _t)] = 'splitting without processor'
    EXCEPTIONS[('reb_integrator_eos_postprocessor', 'REB_EOS_' + _t)] = 'splitting without processor'
# optional-hook dispatchers: an integrator without the hook needs no case
HOOK_DISPATCHERS = {'reb_integrator_init': 'only integrators with cached per-dt constants (SEI) have an init hook'}


def sibling_sets(ctx, rule, cfile, funcs, what):
    """The enumerators with a case must be the same set in all listed sibling functions."""
    tu = cfront.load_tu(cfile)
    sets = {}
    for f in funcs:
        fn = tu.func(f)
        sws = [s for s in switches(tu, fn) if s['enum']]
        if not sws:
            raise AnalysisError('%s: %s has no enum switch' % (rule, f))
        sets[f] = set(sws[0]['labels'])
    ref = sets[funcs[0]]
    for f in funcs[1:]:
        if sets[f] != ref:
            ctx.report(rule, 'siblings:%s~%s' % (funcs[0], f), 'src/%s %s / %s' % (cfile, funcs[0], f),
                       '%s: %s handles %s but %s handles %s' % (what, funcs[0], sorted(ref - sets[f]) or 'the same', f, sorted(sets[f] - ref) or 'no more'))
    return len(funcs)
