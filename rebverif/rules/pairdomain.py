"""Iteration spaces of the pair loops of the force routines (R02.8).

The loop bounds and `continue` guards only compare the indices with 0, 1, each other and the particle counts, so the set
of pairs a loop nest visits is decided by evaluating bounds and guards over a small complete family of count orderings
(N_active = -1, 1..3; up to 3 test particles; both test-particle types; gravity_ignore_terms 0, 1, 2). The union over
the loops of one gravity routine must be exactly the specified pair set, each pair once."""
from ..core import AnalysisError, anchor
from .. import cfront
from ..cfront import walk, strip, render, line_of, qtype


class Unknown(Exception):
    pass


def ieval(n, env, fn_lets):
    n = strip(n, casts=True)
    k = n.get('kind')
    if k == 'IntegerLiteral':
        return int(n['value'])
    if k == 'DeclRefExpr':
        nm = n['referencedDecl']['name']
        if nm in env:
            return env[nm]
        if nm in fn_lets:
            v = ieval(fn_lets[nm], env, fn_lets)
            return v
        raise Unknown(nm)
    if k == 'MemberExpr':
        p = render(n)
        if p in env:
            return env[p]
        raise Unknown(p)
    if k == 'ConditionalOperator':
        return ieval(n['inner'][1], env, fn_lets) if ieval(n['inner'][0], env, fn_lets) else ieval(n['inner'][2], env, fn_lets)
    if k == 'UnaryOperator':
        v = ieval(n['inner'][0], env, fn_lets)
        if n['opcode'] == '!':
            return int(not v)
        if n['opcode'] == '-':
            return -v
        raise Unknown('unary ' + n['opcode'])
    if k == 'BinaryOperator':
        op = n['opcode']
        if op == '&&':
            return int(bool(ieval(n['inner'][0], env, fn_lets)) and bool(ieval(n['inner'][1], env, fn_lets)))
        if op == '||':
            return int(bool(ieval(n['inner'][0], env, fn_lets)) or bool(ieval(n['inner'][1], env, fn_lets)))
        a, b = ieval(n['inner'][0], env, fn_lets), ieval(n['inner'][1], env, fn_lets)
        return {'+': lambda: a + b, '-': lambda: a - b, '*': lambda: a * b, '<': lambda: int(a < b), '>': lambda: int(a > b), '<=': lambda: int(a <= b),
                '>=': lambda: int(a >= b), '==': lambda: int(a == b), '!=': lambda: int(a != b)}[op]()
    raise Unknown(k)


def fn_lets(fn):
    out = {}
    for d in walk(cfront.body(fn)):
        if d.get('kind') == 'VarDecl' and 'init' in d and ('int' in qtype(d)) and '*' not in qtype(d):
            init = [c for c in d.get('inner', []) if c.get('kind') not in ('FullComment',)]
            if init:
                out.setdefault(d['name'], init[-1])
    return out


def _header(f):
    init, cond, inc = f['inner'][0], f['inner'][2], f['inner'][3]
    d = [x for x in init['inner'] if x.get('kind') == 'VarDecl'][0]
    ini = [c for c in d.get('inner', []) if c.get('kind') not in ('FullComment',)][-1]
    if render(inc).replace(' ', '') not in (d['name'] + '++', '++' + d['name']):
        raise Unknown('step ' + render(inc))
    return d['name'], ini, cond


def _guards(body):
    gs = []
    for st in body.get('inner', []):
        if st.get('kind') == 'IfStmt':
            th = st['inner'][1]
            kinds = [x.get('kind') for x in (th.get('inner', []) if th.get('kind') == 'CompoundStmt' else [th])]
            if kinds == ['ContinueStmt'] and not any(x.get('kind') == 'ArraySubscriptExpr' for x in walk(st['inner'][0])):
                gs.append(st['inner'][0])     # mask guards (TRACE K matrix) are decided by R02.5, not part of the index domain
    return gs


def visited(pl, env, lets):
    """list of (i, j) the nest visits (after guards)."""
    vo, io, co = _header(pl.outer_node)
    vi, ii, ci = _header(pl.inner_node)
    lets = {k: v for k, v in lets.items() if k not in (vo, vi)}
    out = []
    e = dict(env)
    e[vo] = ieval(io, e, lets)
    steps = 0
    guards = _guards(pl.outer_node['inner'][-1]) + _guards(pl.inner_node['inner'][-1])
    while ieval(co, e, lets):
        e[vi] = ieval(ii, e, lets)
        while ieval(ci, e, lets):
            if not any(ieval(g, e, lets) for g in guards):
                out.append((e[vo], e[vi]))
            e[vi] += 1
            steps += 1
            if steps > 10000:
                raise Unknown('runaway loop')
        e[vo] += 1
    return out


def spec(nact, nreal, ignore, no0):
    s = set()
    for a in range(nreal):
        for b in range(a):
            if b >= nact:
                continue          # both are test particles
            if no0 and b == 0:
                continue
            if ignore == 1 and (a, b) == (1, 0):
                continue
            if ignore == 2 and b == 0:
                continue
            s.add(frozenset((a, b)))
    return s
