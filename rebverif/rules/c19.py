"""C19 - concurrent simulations do not interfere; served snapshots are consistent: static necessary conditions."""
import ast
import re

from ..core import AnalysisError, anchor
from .. import cfront, pyfront
from ..cfront import walk, strip, render, line_of, is_assign, callee_name, call_args, qtype

ALLOWED_GLOBALS = {'reb_sigint': 'the one process-wide flag the design allows (signal handler)'}
BANNED = {'strtok', 'rand', 'srand', 'localtime', 'gmtime', 'asctime', 'ctime', 'strerror', 'drand48', 'lrand48', 'random', 'srandom', 'setlocale', 'tmpnam', 'getenv_s'}
# functions that may be called on the live simulation by the server thread, with the reason they do not change the trajectory
SERVER_MAY_CALL = {
    'reb_simulation_save_to_stream': 'serialiser; its effect set is checked below',
    'reb_simulation_warning': 'message queue only',
    'reb_simulation_error': 'message queue only',
}
# trajectory state the serialiser may write (X2): member path prefix -> reason
SERIALISER_MAY_WRITE = {
    'r.ri_ias15.N_allocated': 'compression to 3N, documented as not affecting future calculation',
    'r.ri_sei.': 'SEI cache recomputed from dt by reb_integrator_init',
    'r.gravity': 'reb_integrator_init of SEI/EOS may select the gravity routine the integrator requires',
    'r.gravity_ignore_terms': 'set by integrator init to the value part1 sets every step',
}
TRAJECTORY_WRITERS = {'reb_simulation_synchronize', 'reb_simulation_step', 'reb_simulation_steps', 'reb_simulation_integrate', 'reb_integrator_part1', 'reb_integrator_part2',
                      'reb_simulation_move_to_com', 'reb_simulation_move_to_hel', 'reb_simulation_add', 'reb_simulation_remove_particle', 'reb_simulation_reset_integrator',
                      'reb_simulation_update_acceleration', 'reb_calculate_acceleration', 'reb_collision_search', 'reb_boundary_check', 'reb_simulation_update_tree'}


def is_const(q):
    q = q.strip()
    if '*' in q:
        return ' const' in q.split('*')[-1] or q.split('*')[-1].strip().startswith('const')
    return q.startswith('const ') or ' const' in q


def _depends_on_inputs(fn, rhs):
    """Does the value stored depend on the function's parameters (directly or through locals assigned from them)?"""
    params = {p['name'] for p in cfront.params(fn) if p.get('name')}
    tainted = set(params)
    changed = True
    guard = 0
    while changed and guard < 20:
        changed = False
        guard += 1
        for e in walk(cfront.body(fn)):
            tgt = None
            src = None
            if e.get('kind') == 'VarDecl' and 'init' in e:
                init = [c for c in e.get('inner', []) if c.get('kind') not in ('FullComment',)]
                tgt, src = e['name'], (init[-1] if init else None)
            elif is_assign(e):
                root = strip(e['inner'][0])
                while root.get('kind') in ('MemberExpr', 'ArraySubscriptExpr') or (root.get('kind') == 'UnaryOperator' and root.get('opcode') == '*'):
                    root = strip(root['inner'][0])
                if root.get('kind') == 'DeclRefExpr' and root['referencedDecl'].get('kind') in ('VarDecl',):
                    tgt, src = root['referencedDecl']['name'], e['inner'][1]
            if tgt and src is not None and tgt not in tainted:
                names = {x['referencedDecl']['name'] for x in walk(src) if x.get('kind') == 'DeclRefExpr'}
                if names & tainted:
                    tainted.add(tgt)
                    changed = True
    names = {x['referencedDecl']['name'] for x in walk(rhs) if x.get('kind') == 'DeclRefExpr'}
    return bool(names & tainted)


def rule_static_storage(ctx, config='default'):
    tus = cfront.load_tus(config=config)
    n = 0
    samples = []
    written = {}    # global name -> [(file, function, line)]
    addr = {}
    gl = {}
    for cfile, tu in tus.items():
        for name, d in tu.globals.items():
            f = cfront.basename(d.get('_locfile') or d.get('_file'))
            if d.get('storageClass') == 'extern' or f != cfile:
                continue
            n += 1
            if not is_const(qtype(d)):
                gl[name] = (cfile, d)
    for cfile, tu in tus.items():
        for fname, fn in tu.funcs.items():
            if cfront.basename(fn.get('_locfile') or fn.get('_file')) != cfile:
                continue
            local_names = {x.get('name') for x in walk(fn) if x.get('kind') in ('VarDecl', 'ParmVarDecl')}
            def _is_global_ref(root):
                nm_ = root['referencedDecl']['name']
                if nm_ not in gl or nm_ in local_names:
                    return False
                gfile, gdecl = gl[nm_]
                if gdecl.get('storageClass') == 'static' and gfile != cfile:
                    return False      # a file-local object of another translation unit
                return True
            for d in walk(cfront.body(fn)):
                if d.get('kind') == 'VarDecl' and d.get('storageClass') == 'static':
                    n += 1
                    if not is_const(qtype(d)):
                        ctx.report('R19.1', 'static:%s:%s' % (fname, d['name']), 'src/%s:%s %s' % (cfile, line_of(d), fname),
                                   'function-local static %s %s is storage shared by every simulation and thread of the process: concurrent simulations interfere through it'
                                   % (qtype(d), d['name']))
                if is_assign(d) or (d.get('kind') == 'UnaryOperator' and d.get('opcode') in ('++', '--')):
                    root = strip(d['inner'][0])
                    while root.get('kind') in ('MemberExpr', 'ArraySubscriptExpr') or (root.get('kind') == 'UnaryOperator' and root.get('opcode') == '*'):
                        root = strip(root['inner'][0])
                    if root.get('kind') == 'DeclRefExpr' and root['referencedDecl'].get('kind') == 'VarDecl' and _is_global_ref(root):
                        dep = _depends_on_inputs(fn, d['inner'][1]) if is_assign(d) and d.get('opcode') == '=' else True
                        written.setdefault(root['referencedDecl']['name'], []).append((cfile, fname, line_of(d), dep, render(d['inner'][1]) if is_assign(d) else '++'))
                if d.get('kind') == 'UnaryOperator' and d.get('opcode') == '&':
                    root = strip(d['inner'][0])
                    while root.get('kind') in ('MemberExpr', 'ArraySubscriptExpr'):
                        root = strip(root['inner'][0])
                    if root.get('kind') == 'DeclRefExpr' and _is_global_ref(root):
                        addr.setdefault(root['referencedDecl']['name'], []).append((cfile, fname, line_of(d)))
    for name, (cfile, d) in sorted(gl.items()):
        where = 'src/%s:%s' % (cfile, line_of(d))
        if name in ALLOWED_GLOBALS:
            samples.append('%s %s: allowed (%s)' % (where, name, ALLOWED_GLOBALS[name]))
            continue
        if name in written:
            deps = [w for w in written[name] if w[3]]
            distinct = sorted({w[4] for w in written[name]})
            whole = strip(d) if False else None
            if not deps and len(distinct) > 1 and all(render(strip(x['inner'][0])) == name for c2, tu2 in tus.items() for fn2 in tu2.funcs.values() if cfront.body(fn2) is not None for x in walk(cfront.body(fn2)) if is_assign(x) and render(strip(x['inner'][0])) == name):
                # the object itself (not an element of a table) is assigned different values at different sites: which one it
                # holds depends on which branch ran last - for which simulation - although no right-hand side mentions one
                w = written[name][0]
                ctx.report('R19.1', 'global:%s' % name, where,
                           'mutable file-scope object %s %s is assigned %d different values (%s ...) in %s: which one it holds depends on the simulation that ran last - state shared by all simulations of the process'
                           % (qtype(d), name, len(distinct), ', '.join(distinct[:3]), w[1]))
                continue
            if not deps:
                # every write stores a value that does not depend on any simulation (literals, other such constants): idempotent
                # initialisation of a constant table - all simulations write the same bits
                samples.append('%s %s: written only with simulation-independent values (idempotent initialisation)' % (where, name))
                ctx.note('R19.1 %s (%s) is a file-scope object initialised at run time with simulation-independent values in %s' % (name, config, written[name][0][1]))
                continue
            w = deps[0]
            ctx.report('R19.1', 'global:%s' % name, where,
                       'mutable file-scope object %s %s is written in %s (src/%s:%s) with a value that depends on the simulation: state shared by all simulations of the process' % (qtype(d), name, w[1], w[0], w[2]))
        elif name in addr:
            a = addr[name][0]
            ctx.report('R19.1', 'global:%s:addr' % name, where, 'the address of mutable file-scope object %s escapes in %s (src/%s:%s)' % (name, a[1], a[0], a[2]))
        else:
            samples.append('%s %s: non-const but never written and never address-taken (read-only table)' % (where, name))
    ctx.covered('R19.1' if config == 'default' else 'R19.1:' + config,
                'objects with static storage duration in the library (%s configuration): const, the allowed signal flag, or never written/address-taken' % config, n, floor=30, samples=samples[:5])


def rule_banned_calls(ctx):
    tus = cfront.load_tus()
    n = 0
    for cfile, tu in tus.items():
        if cfile in ('display.c', 'glad.c'):
            continue
        for fname, fn in tu.funcs.items():
            if cfront.basename(fn.get('_locfile') or fn.get('_file')) != cfile:
                continue
            for e in walk(cfront.body(fn)):
                if e.get('kind') == 'CallExpr':
                    n += 1
                    nm = callee_name(e)
                    if nm in BANNED:
                        ctx.report('R19.2', 'banned:%s:%s' % (fname, nm), 'src/%s:%s %s' % (cfile, line_of(e), fname),
                                   '%s() keeps hidden process-wide state; called from the library it makes concurrently running simulations depend on each other' % nm)
    ctx.covered('R19.2', 'call sites in the library: none calls a libc function with hidden global state (strtok, rand, localtime, ...)', n, floor=2000)


def _region_calls(items, start_pred, end_pred):
    """call names between the first statement matching start_pred and the first matching end_pred (inclusive walk)."""
    out = []
    inside = False
    for st in items:
        for e in walk(st):
            if e.get('kind') == 'CallExpr':
                nm = callee_name(e) or render(e['inner'][0])
                if start_pred(e):
                    inside = True
                    continue
                if end_pred(e):
                    inside = False
                    continue
                if inside:
                    out.append((nm, e))
    return out


def _lock_wrappers(tus):
    """(lockers, unlockers): functions that do nothing but take / release a mutex (possibly after setting a flag) - a call of
    such a wrapper is the lock / unlock event it wraps"""
    lockers, unlockers = {'pthread_mutex_lock'}, {'pthread_mutex_unlock'}
    for tu in tus:
        for name, f in tu.funcs.items():
            calls = [callee_name(e) for e in walk(cfront.body(f)) if e.get('kind') == 'CallExpr']
            if calls == ['pthread_mutex_lock']:
                lockers.add(name)
            elif calls == ['pthread_mutex_unlock']:
                unlockers.add(name)
    return lockers, unlockers


def rule_lock_discipline(ctx):
    n = 0
    samples = []
    LOCK, UNLOCK = _lock_wrappers([cfront.load_tu('rebound.c'), cfront.load_tu('server.c')])
    # integrate loop: lock ... heartbeat, step, heartbeat ... unlock, no jump out of the region
    tu = cfront.load_tu('rebound.c')
    fn = tu.func('reb_simulation_integrate_raw')
    from .. import normal
    _li, _cond, body = normal.main_loop(cfront.body(fn).get('inner', []), 'reb_simulation_step')
    anchor(_li is not None, 'the loop of reb_simulation_integrate_raw that calls reb_simulation_step')
    seq = []
    for st in body:
        for e in walk(st):
            if e.get('kind') == 'CallExpr':
                nm = callee_name(e)
                if nm in LOCK and ('mutex' in render(e) or nm != 'pthread_mutex_lock'):
                    seq.append('pthread_mutex_lock')
                elif nm in UNLOCK and ('mutex' in render(e) or nm != 'pthread_mutex_unlock'):
                    seq.append('pthread_mutex_unlock')
                elif nm in ('reb_simulationarchive_heartbeat', 'reb_simulation_step', 'reb_run_heartbeat'):
                    seq.append(nm)
            if e.get('kind') in ('BreakStmt', 'ContinueStmt', 'ReturnStmt', 'GotoStmt'):
                seq.append(e['kind'])
    n += 1
    want = ['pthread_mutex_lock', 'reb_simulationarchive_heartbeat', 'reb_simulation_step', 'reb_run_heartbeat', 'pthread_mutex_unlock']
    if seq != want:
        ctx.report('R19.3', 'integrate:lock-region', 'src/rebound.c reb_simulation_integrate_raw',
                   'the step is not bracketed by the server mutex without a way out of the region: %s (expected %s)' % (seq, want))
    samples.append('integrate loop: %s' % seq)
    # server: every use of the live simulation by the serialiser or a user callback lies between lock and unlock of data->mutex
    ts = cfront.load_tu('server.c')
    fs = ts.func('reb_server_start')
    # handlers split off into their own functions are followed: their events are spliced in where they are called
    split = {f_['name']: f_ for f_ in normal.with_new_helpers(ts, 'reb_server_start') if f_['name'] != 'reb_server_start'}

    def events_of(node, depth=0):
        evs = []
        for e in walk(node):
            if e.get('kind') == 'CallExpr':
                nm = callee_name(e)
                if nm in LOCK and ('mutex' in render(e) or nm != 'pthread_mutex_lock'):
                    evs.append(('lock', line_of(e)))
                elif nm in UNLOCK and ('mutex' in render(e) or nm != 'pthread_mutex_unlock'):
                    evs.append(('unlock', line_of(e)))
                elif nm is None and 'key_callback' in render(e['inner'][0]):
                    evs.append(('callback', line_of(e)))
                elif nm in split and depth < 3:
                    evs.append(('enter:' + nm, line_of(e)))
                elif nm and nm.startswith('reb_') and any(render(a) in ('r', 'data.r') for a in call_args(e)) and nm not in ('reb_simulation_warning', 'reb_simulation_error'):
                    evs.append(('uses-r:' + nm, line_of(e)))
            elif e.get('kind') == 'ReturnStmt' or e.get('kind') == 'ContinueStmt' or e.get('kind') == 'BreakStmt':
                # only jumps that leave the handler matter; breaks inside the key switch are harmless (outside the region)
                evs.append((e['kind'], line_of(e)))
            elif e.get('kind') == 'GotoStmt':
                evs.append(('goto', line_of(e)))
            elif e.get('kind') == 'LabelStmt':
                evs.append(('label', line_of(e)))
        evs.sort(key=lambda ev: ev[1] or 0)
        out = []
        for ev in evs:
            if ev[0].startswith('enter:'):
                h = ev[0][6:]
                out.append(ev)
                out += events_of(cfront.body(split[h]), depth + 1)
                out.append(('exit:' + h, ev[1]))
            else:
                out.append(ev)
        return out
    for ifs in walk(cfront.body(fs)):
        if ifs.get('kind') != 'IfStmt':
            continue
        c = render(ifs['inner'][0])
        if 'uri' not in c or 'str' not in c:
            continue
        thenb = ifs['inner'][1]
        events = events_of(thenb)
        if not any(ev[0] in ('lock', 'callback') or ev[0].startswith('uses-r') for ev in events):
            continue
        n += 1
        held = False
        uri = re.search(r'"(/[^"]*)"', c)
        uri = uri.group(1) if uri else c[:30]
        where = 'src/server.c reb_server_start (handler %s)' % uri
        label_line = [ev[1] for ev in events if ev[0] == 'label']
        entry = []          # mutex state at the entry of each split-off function being followed
        for ev, line in events:
            if ev.startswith('enter:'):
                entry.append(held)
            elif ev.startswith('exit:'):
                entry.pop()
            elif ev == 'lock':
                held = True
            elif ev == 'unlock':
                if not held:
                    ctx.report('R19.3', 'server:%s:unlock' % uri, where, 'unlock at line %s without a preceding lock' % line)
                held = False
            elif ev == 'callback' or ev.startswith('uses-r'):
                if not held:
                    ctx.report('R19.3', 'server:%s:%s' % (uri, ev), where,
                               'line %s hands the live simulation to %s without holding the mutex the integration loop holds during a step: the client can see (or the callback can change) a state in the middle of a step' % (line, ev))
            elif ev in ('ReturnStmt', 'ContinueStmt') and held and not (entry and entry[-1]):
                # a return inside a split-off function entered with the mutex held goes back to the caller, which releases it
                ctx.report('R19.3', 'server:%s:leak' % uri, where, 'line %s leaves the handler while the mutex is held' % line)
            elif ev == 'goto' and held:
                # must target a label that is followed by the unlock
                if not label_line or not any(e2[0] == 'unlock' and e2[1] > label_line[0] for e2 in events):
                    ctx.report('R19.3', 'server:%s:goto' % uri, where, 'goto at line %s leaves the locked region without reaching the unlock' % line)
        if held:
            ctx.report('R19.3', 'server:%s:held' % uri, where, 'the handler ends with the mutex still held')
        samples.append('%s: %s' % (uri, [ev[0] for ev in events if ev[0] not in ('BreakStmt',)][:8]))
    ctx.covered('R19.3', 'lock discipline: a step runs under the server mutex with no exit from the region; server handlers touch the live simulation only under the mutex and always release it', n, floor=4, samples=samples)


def rule_serving_is_readonly(ctx):
    """R19.4: the server thread calls nothing on the live simulation that advances or re-arranges the trajectory, and
    the serialiser itself writes only the frozen list of members."""
    n = 0
    ts = cfront.load_tu('server.c')
    fs = ts.func('reb_server_start')
    for e in walk(cfront.body(fs)):
        if e.get('kind') == 'CallExpr':
            nm = callee_name(e)
            if nm and nm.startswith('reb_') and any(render(a) in ('r', 'data.r') for a in call_args(e)):
                n += 1
                if nm in TRAJECTORY_WRITERS or nm not in SERVER_MAY_CALL:
                    ctx.report('R19.4', 'server:calls:%s' % nm, 'src/server.c:%s reb_server_start' % line_of(e),
                               'the server thread calls %s on the simulation that is being integrated: serving a request alters the trajectory (only %s may be called)' % (nm, sorted(SERVER_MAY_CALL)))
    # effect set of the serialiser: direct writes through r-> in save_to_stream and in the integrator init hooks it calls
    tus = cfront.load_tus(['output.c', 'integrator.c', 'integrator_sei.c', 'integrator_eos.c', 'integrator_whfast.c'])
    allf = {}
    for tu in tus.values():
        allf.update(tu.funcs)
    seen = set()
    work = ['reb_simulation_save_to_stream']
    writes = []
    calls_out = []
    while work:
        f = work.pop()
        if f in seen or f not in allf:
            continue
        seen.add(f)
        fn = allf[f]
        for e in walk(cfront.body(fn)):
            if is_assign(e) or (e.get('kind') == 'UnaryOperator' and e.get('opcode') in ('++', '--')):
                lv = render(e['inner'][0])
                if lv.startswith('r.'):
                    writes.append((f, lv, line_of(e)))
            if e.get('kind') == 'CallExpr':
                nm = callee_name(e)
                if nm and nm.startswith('reb_'):
                    calls_out.append((f, nm, line_of(e)))
                    if nm in allf and nm not in ('reb_simulation_error', 'reb_simulation_warning'):
                        work.append(nm)
    for f, nm, line in calls_out:
        n += 1
        if nm in TRAJECTORY_WRITERS:
            ctx.report('R19.4', 'serialiser:calls:%s' % nm, 'src %s line %s' % (f, line), 'the serialiser (through %s) calls %s: saving or serving a snapshot changes the evolving state' % (f, nm))
    for f, lv, line in writes:
        n += 1
        if not any(lv == k or lv.startswith(k) for k in SERIALISER_MAY_WRITE):
            ctx.report('R19.4', 'serialiser:writes:%s' % lv, 'src %s line %s' % (f, line), 'the serialiser writes %s, which is not on the list of members it may touch' % lv)
    from . import capacity
    nt, st = capacity.rule_capacity_trim(ctx, 'R19.4', 'output.c', 'reb_simulation_save_to_stream')
    anchor(nt >= 1, 'the serialiser trims ri_ias15.N_allocated before writing')
    n += nt
    ctx.covered('R19.4', 'serving is read-only: calls made by the server thread on the live simulation; calls and member writes of the serialiser (transitively through the integrator init hooks); the one capacity it trims is trimmed to the owner\'s size', n, floor=9,
                samples=['serialiser reaches %s; writes %s' % (sorted(seen), sorted({w[1] for w in writes}))])


def rule_python_restype(ctx):
    """R19.5 (information): clibrebound.<f>.restype is a shared attribute; conflicting assignments race between threads."""
    db = pyfront.pydb()
    res = {}
    for rel, tree in db.files.items():
        if '/tests/' in rel:
            continue
        for node in ast.walk(tree):
            if isinstance(node, ast.Assign) and len(node.targets) == 1:
                t = node.targets[0]
                if isinstance(t, ast.Attribute) and t.attr == 'restype' and isinstance(t.value, ast.Attribute) and pyfront._name(t.value.value) == 'clibrebound':
                    res.setdefault(t.value.attr, set()).add(ast.unparse(node.value))
    for f, vals in sorted(res.items()):
        norm = {v.replace('cls', 'Rotation') for v in vals}
        if len(norm) > 1:
            ctx.note('R19.5 clibrebound.%s.restype is assigned different values at different sites (%s): a shared attribute of a shared function object' % (f, sorted(vals)))


def rule_descriptor_ownership(ctx):
    """R19.6: a descriptor handed to fdopen() belongs to the stream: fclose() closes it. A later close() of the same
    descriptor variable closes whatever file was given that number in the meantime - in a process where the simulation
    thread opens archive files while the server thread handles requests, that is somebody else's file. Typestate per
    function, in source order: OWNED(fd) after S = fdopen(fd, ..), RELEASED(fd) after fclose(S); close(fd) in state
    RELEASED (same statement list or a later one, before fd is assigned again) is reported. Also: every fdopen'ed stream
    is fclose'd on each path that ends an iteration (continue) or the function."""
    import glob, os
    from .. import core
    n = 0
    samples = []
    for path in sorted(glob.glob(os.path.join(core.REPO, 'src', '*.c'))):
        cfile = os.path.basename(path)
        try:
            tu = cfront.load_tu(cfile)
        except Exception:
            continue
        for fname in sorted(tu.funcs):
            fn = tu.func(fname)
            body = cfront.body(fn)
            if body is None:
                continue
            owner = {}      # stream variable -> fd variable
            for e in walk(body):
                if is_assign(e) and e['opcode'] == '=':
                    r_ = strip(e['inner'][1], casts=True)
                    if r_.get('kind') == 'CallExpr' and callee_name(r_) == 'fdopen' and call_args(r_):
                        owner[render(e['inner'][0])] = render(call_args(r_)[0])
                if e.get('kind') == 'VarDecl' and 'init' in e:
                    init = [c for c in e.get('inner', []) if c.get('kind') not in ('FullComment',)]
                    r_ = strip(init[-1], casts=True) if init else {}
                    if r_.get('kind') == 'CallExpr' and callee_name(r_) == 'fdopen' and call_args(r_):
                        owner[e['name']] = render(call_args(r_)[0])
            if not owner:
                continue
            # walk statement lists in order; state is reset when the fd variable is assigned again (next accept)
            def visit(items, released):
                nonlocal n
                released = set(released)
                for st in items:
                    k = st.get('kind')
                    if k in ('CompoundStmt',):
                        released = visit(st.get('inner', []), released)
                        continue
                    if k in ('IfStmt', 'WhileStmt', 'ForStmt', 'DoStmt', 'SwitchStmt', 'CaseStmt', 'DefaultStmt', 'LabelStmt'):
                        inner = [c for c in st.get('inner', []) if isinstance(c, dict) and c.get('kind')]
                        outs = [visit([c], released) for c in inner]
                        # a release inside a branch that leaves (continue/return) does not reach the code behind it
                        for c, o in zip(inner, outs):
                            leaves = any(x.get('kind') in ('ContinueStmt', 'ReturnStmt', 'BreakStmt', 'GotoStmt') for x in walk(c))
                            if not leaves:
                                released |= o
                        continue
                    for e in walk(st):
                        if e.get('kind') == 'CallExpr':
                            f = callee_name(e)
                            args = [render(a) for a in call_args(e)]
                            if f == 'fclose' and args and args[0] in owner:
                                released.add(owner[args[0]])
                                n += 1
                            elif f == 'close' and args and args[0] in released:
                                ctx.report('R19.6', '%s:double-close:%s' % (fname, args[0]), 'src/%s:%s %s' % (cfile, line_of(e), fname),
                                           'close(%s) after fclose() of the stream that fdopen() created from it: the descriptor is already closed, and the number may meanwhile belong to a file another thread has opened (the simulation thread writing an archive)' % args[0])
                            elif f == 'close' and args and args[0] in owner.values():
                                n += 1
                        if is_assign(e) and e['opcode'] == '=' and render(e['inner'][0]) in released:
                            released.discard(render(e['inner'][0]))
                return released
            visit(body.get('inner', []), set())
            samples.append('src/%s %s: streams %s' % (cfile, fname, sorted(owner)))
    ctx.covered('R19.6', 'descriptors handed to fdopen are closed once, through their stream (typestate per function)', n, floor=3, samples=samples)


def run(ctx):
    from . import serial as _serial2
    _serial2.rule_tree_predicate(ctx, 'R19.7')     # a served or restored snapshot of a linetree simulation gets its tree back
    from . import serial as _serial
    _serial.rule_R05_2(ctx)         # R05.2: a served snapshot carries every member under its own name
    from . import c01
    c01.rule_dispatch(ctx)            # R01.1: a switch over r->status that ignores enumerators (paused / single-stepped by a client) without reporting
    rule_descriptor_ownership(ctx)
    rule_static_storage(ctx)
    if ctx.tier == 'thorough':
        for cfg in ('avx512', 'openmp'):
            try:
                rule_static_storage(ctx, cfg)
            except AnalysisError as e:
                ctx.note('R19.1 configuration %s not analysed: %s' % (cfg, e))
    rule_banned_calls(ctx)
    rule_lock_discipline(ctx)
    rule_serving_is_readonly(ctx)
    rule_python_restype(ctx)
    ctx.not_decided.append('thread schedules (runtime); the deliberate unlocked status writes of the keyboard handler; the prologue/epilogue of integrate (check_exit, final synchronise) running outside the mutex; user callbacks')
