"""Pair set of the jerk routine (R02.14).

The modified-kick schemes (EOS phi0 = LF4_2 / PMLF4 / PMLF6) correct the kick by v times the "jerk", the gradient of the
squared acceleration. The correction belongs to the same force as the kick: reb_calculate_and_apply_jerk has to visit
exactly the pairs that reb_calculate_acceleration visits for the same counts, test-particle type and gravity_ignore_terms
- active-active pairs, active-test pairs, and never a pair of two test particles. A pair that the jerk has and the kick has
not (or the reverse) leaves an error term of second order in the step, whatever order the scheme advertises.

Decided with the pair-domain engine of R02.8 (exact evaluation of loop bounds and `continue` guards over a complete small
family of count orderings). gravity_ignore_terms: every caller of the jerk routine fixes the mode by an assignment of a
literal in the same function before the call; the family is evaluated for those modes (all three when a caller does not)."""
import re

from ..core import AnalysisError, anchor
from .. import cfront
from ..cfront import walk, render, callee_name, line_of
from . import pairloops as P
from . import pairdomain as D

JERK = 'reb_calculate_and_apply_jerk'


def _caller_modes():
    """gravity_ignore_terms values under which the jerk routine is called: {literal} per caller, None if a caller leaves it open."""
    modes = set()
    callers = []
    for cfile, tu in sorted(cfront.load_tus().items()):
        for fname, fn in sorted(tu.funcs.items()):
            if cfront.body(fn) is None or cfront.basename(fn.get('_locfile') or fn.get('_file')) != cfile or fname == JERK:
                continue
            calls = [e for e in walk(cfront.body(fn)) if e.get('kind') == 'CallExpr' and callee_name(e) == JERK]
            if not calls:
                continue
            callers.append('%s:%s' % (cfile, fname))
            vals = set()
            for e in walk(cfront.body(fn)):
                if e.get('kind') == 'BinaryOperator' and e.get('opcode') == '=' and re.search(r'(\.|^)gravity_ignore_terms$', render(e['inner'][0]).replace(' ', '')):
                    if line_of(e) is not None and all(line_of(e) <= (line_of(c) or 0) for c in calls):
                        r = render(e['inner'][1]).replace(' ', '').strip('()')
                        vals.add(int(r) if re.fullmatch(r'\d+', r) else None)
            if not vals or None in vals:
                return None, callers
            modes |= vals
    return modes, callers


def rule_jerk_domain(ctx, rule='R02.14'):
    tu = cfront.load_tu('gravity.c')
    fn = tu.func(JERK)
    anchor(fn is not None, JERK)
    modes, callers = _caller_modes()
    anchor(len(callers) >= 1, 'callers of ' + JERK)
    igs = (0, 1, 2) if modes is None else tuple(sorted(modes | {0}))        # 0: nothing is left out - the plain pair set
    lets = D.fn_lets(fn)
    n = 0
    for cases in sorted({tuple(pl.cases) for pl in P.find_pair_loops(tu, fn)}):
        pls = [pl for pl in P.find_pair_loops(tu, fn) if tuple(pl.cases) == cases]
        anchor(len(pls) >= 2, 'active-active and test-particle pair loops of %s %s' % (JERK, '/'.join(cases)))
        bad = None
        for nraw in (-1, 1, 2, 3):
            for ntest in (0, 1, 2, 3):
                nact = (2 + ntest) if nraw == -1 else nraw
                nreal = nact if nraw == -1 else nact + ntest
                for tt in (0, 1):
                    for ig in igs:
                        env = {'r.N': nreal, 'r.N_var': 0, 'r.N_active': nraw, 'r.gravity_ignore_terms': ig, 'r.testparticle_type': tt}
                        seen = []
                        try:
                            for pl in pls:
                                seen += D.visited(pl, dict(env), lets)
                        except D.Unknown as ex:
                            raise AnalysisError('%s: cannot evaluate the iteration space of %s %s: %s' % (rule, JERK, '/'.join(cases), ex))
                        n += 1
                        got = [frozenset(p_) for p_ in seen]
                        want = D.spec(nact, nreal, ig, False)
                        if (set(got) != want or len(got) != len(set(got))) and bad is None:
                            missing = sorted(tuple(sorted(x)) for x in want - set(got))
                            extra = sorted(tuple(sorted(x)) for x in set(got) - want if len(x) == 2)
                            bad = (nraw, nreal, tt, ig, missing, extra, len(got) - len(set(got)))
        where = 'src/gravity.c:%s %s %s' % (pls[0].line, JERK, '/'.join(cases))
        if bad:
            nraw, nreal, tt, ig, missing, extra, dup = bad
            both_test = [p_ for p_ in extra if nraw != -1 and min(p_) >= nraw]
            ctx.report(rule, '%s:%s:domain' % (JERK, '/'.join(cases)), where,
                       'with N_active=%d, %d real particles, testparticle_type=%d, gravity_ignore_terms=%d the jerk loops visit a different pair set than the acceleration they correct: missing %s, unexpected %s%s, visited twice: %d - the modified-kick schemes lose their order'
                       % (nraw, nreal, tt, ig, missing[:4], extra[:4], ' (pairs of two test particles: %s)' % both_test[:3] if both_test else '', dup))
    ctx.covered(rule, 'iteration space of the jerk routine equals the pair set of the acceleration for every ordering of the counts, both test-particle types and the gravity_ignore_terms modes of its callers (%s from %s)' % (list(igs), ', '.join(callers)),
                n, floor=64, samples=['src/gravity.c:%s %s' % (line_of(fn), JERK)])


# ------------------------------------------------------------------ Jacobi-split routine and its jerk (R02.15)
def _direct_ifs(loop_body):
    """`if (...) { ... particles[a].x - particles[b].x ... }` statements of a loop body: the direct (pairwise) term."""
    out = []
    for st in walk(loop_body):
        if st.get('kind') != 'IfStmt':
            continue
        for e in walk(st['inner'][1]):
            if e.get('kind') == 'BinaryOperator' and e.get('opcode') == '-':
                a, b = (render(x).replace(' ', '') for x in e['inner'])
                ma, mb = re.fullmatch(r'\(*particles\[(\w+)\]\.x\)*', a), re.fullmatch(r'\(*particles\[(\w+)\]\.x\)*', b)
                if ma and mb and ma.group(1) != mb.group(1):
                    out.append(st)
                    break
    return out


def rule_jacobi_direct_domain(ctx, rule='R02.15'):
    """The Jacobi-split gravity routine (WHFast kernels MODIFIEDKICK / LAZY, SABA) and the jerk of the modified kick run one
    triangular loop nest over all particles; the direct term is guarded by an `if`. The pairs that pass the guard are the
    specified pair set for gravity_ignore_terms = 1 (the star-planet term of the Kepler step is left out): active-active
    and active-test pairs, no pair of two test particles - the same set REB_GRAVITY_BASIC gives the other kernels."""
    sites = [('gravity.c', 'reb_calculate_acceleration', 'REB_GRAVITY_JACOBI'), ('integrator_whfast.c', 'reb_whfast_calculate_jerk', None)]
    n = 0
    samples = []
    for cfile, fname, case in sites:
        tu = cfront.load_tu(cfile)
        fn = tu.func(fname)
        anchor(fn is not None, fname)
        lets = D.fn_lets(fn)
        pls = [pl for pl in P.find_pair_loops(tu, fn) if (case is None or case in tuple(pl.cases))]
        anchor(len(pls) == 1, 'the triangular loop nest of %s%s (found %d)' % (fname, ' ' + case if case else '', len(pls)))
        pl = pls[0]
        ifs = _direct_ifs(pl.inner_node['inner'][-1])
        anchor(len(ifs) == 1, 'the guarded direct term of %s (found %d)' % (fname, len(ifs)))
        cond = ifs[0]['inner'][0]
        # `if (...) continue;` statements of the two loop bodies exclude pairs as well (the pair-loop engine's reading)
        skips = D._guards(pl.outer_node['inner'][-1]) + D._guards(pl.inner_node['inner'][-1])
        vo, io, co = D._header(pl.outer_node)
        vi, ii, ci = D._header(pl.inner_node)
        L = {k: v for k, v in lets.items() if k not in (vo, vi)}
        bad = None
        for nraw in (-1, 1, 2, 3):
            for ntest in (0, 1, 2, 3):
                nact = (2 + ntest) if nraw == -1 else nraw
                nreal = nact if nraw == -1 else nact + ntest
                for tt in (0, 1):
                    env = {'r.N': nreal, 'r.N_var': 0, 'r.N_active': nraw, 'r.gravity_ignore_terms': 1, 'r.testparticle_type': tt}
                    got = []
                    try:
                        e = dict(env)
                        e[vo] = D.ieval(io, e, L)
                        while D.ieval(co, e, L):
                            e[vi] = D.ieval(ii, e, L)
                            while D.ieval(ci, e, L):
                                if D.ieval(cond, e, L) and not any(D.ieval(g, e, L) for g in skips):
                                    got.append(frozenset((e[vo], e[vi])))
                                e[vi] += 1
                                if len(got) > 1000:
                                    raise D.Unknown('runaway loop')
                            e[vo] += 1
                    except D.Unknown as ex:
                        raise AnalysisError('%s: cannot evaluate the guard of the direct term of %s: %s' % (rule, fname, ex))
                    n += 1
                    want = D.spec(nact, nreal, 1, False)
                    if (set(got) != want or len(got) != len(set(got))) and bad is None:
                        missing = sorted(tuple(sorted(x)) for x in want - set(got))
                        extra = sorted(tuple(sorted(x)) for x in set(got) - want if len(x) == 2)
                        selfp = [tuple(x) for x in got if len(x) == 1]
                        bad = (nraw, nreal, tt, missing, extra, selfp, len(got) - len(set(got)))
        where = 'src/%s:%s %s%s' % (cfile, line_of(ifs[0]), fname, ' ' + case if case else '')
        if bad:
            nraw, nreal, tt, missing, extra, selfp, dup = bad
            both_test = [p_ for p_ in extra if nraw != -1 and min(p_) >= nraw]
            ctx.report(rule, '%s:direct:domain' % fname, where,
                       'with N_active=%d, %d real particles, testparticle_type=%d the direct term is evaluated for the wrong pair set: missing %s, unexpected %s%s, self-pairs %s, twice: %d - the kernels that use this routine integrate a different system than the default kernel (REB_GRAVITY_BASIC), by an amount that does not shrink with the step'
                       % (nraw, nreal, tt, missing[:4], extra[:4], ' (pairs of two test particles: %s)' % both_test[:3] if both_test else '', selfp[:2], dup))
        else:
            samples.append('%s: guard %s' % (where, render(cond)))
    ctx.covered(rule, 'guard of the direct term of the Jacobi-split gravity routine and of the modified-kick jerk admits exactly the specified pair set for every ordering of the counts', n, floor=64, samples=samples)
