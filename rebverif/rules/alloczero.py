"""Heap records and their destructors (R07.10).

A record type T has a destructor when some function takes a `struct T*` and frees members of it. A T obtained from malloc
holds garbage in those members; if an error path reaches the destructor before every freed member was assigned, free() is
called on a wild pointer. So each `malloc(sizeof(struct T))` of such a type must be (a) a calloc, or (b) followed by a
memset(.., 0, ..) of the record, or (c) handed to a function that assigns every freed member unconditionally (at the top
level of its body) before anything can fail."""
import re

from ..core import AnalysisError, anchor
from .. import cfront
from ..cfront import walk, strip, render, line_of, is_assign, callee_name, call_args, qtype


def _struct_of(t):
    m = re.search(r'struct (\w+) \*', t.replace('const', '').replace('restrict', ''))
    return m.group(1) if m else None


def destructors(tus):
    """{struct name: {member freed}}"""
    out = {}
    for tu in tus.values():
        for fname, fn in tu.funcs.items():
            ps = {p.get('name'): _struct_of(qtype(p)) for p in cfront.params(fn) if p.get('name')}
            for e in walk(cfront.body(fn)):
                if e.get('kind') == 'CallExpr' and callee_name(e) == 'free' and call_args(e):
                    a = strip(call_args(e)[0], casts=True)
                    if a.get('kind') == 'MemberExpr':
                        b = strip(a['inner'][0], casts=True)
                        if b.get('kind') == 'DeclRefExpr' and ps.get(b['referencedDecl']['name']):
                            out.setdefault(ps[b['referencedDecl']['name']], set()).add(a['name'])
    return out


def top_level_assigned(fn, pname):
    """members of parameter pname assigned by top-level statements of fn (before the first statement that can leave)"""
    got = set()
    for st in cfront.body(fn).get('inner', []):
        k = st.get('kind')
        if k in ('IfStmt', 'ForStmt', 'WhileStmt', 'DoStmt', 'SwitchStmt', 'ReturnStmt'):
            if any(x.get('kind') in ('ReturnStmt', 'GotoStmt') for x in walk(st)):
                break
            continue
        s = strip(st)
        if is_assign(s) and s['opcode'] == '=':
            l = strip(s['inner'][0])
            if l.get('kind') == 'MemberExpr' and render(l['inner'][0]).replace(' ', '') == pname:
                got.add(l['name'])
        if s.get('kind') == 'CallExpr' and callee_name(s) == 'memset' and call_args(s) and render(call_args(s)[0]).replace(' ', '') in (pname, '(*%s)' % pname) and render(call_args(s)[1]).strip() == '0':
            return None      # everything zeroed
    return got


def rule_zeroed_records(ctx, rule='R07.10'):
    tus = cfront.load_tus()
    allf = {}
    for tu in tus.values():
        for k, v in tu.funcs.items():
            allf.setdefault(k, v)
    dts = destructors(tus)
    n = 0
    samples = []
    for c, tu in sorted(tus.items()):
        for fname, fn in sorted(tu.funcs.items()):
            if cfront.basename(fn.get('_locfile') or fn.get('_file')) != c:
                continue
            for e in walk(cfront.body(fn)):
                lv = init = ty = None
                if e.get('kind') == 'VarDecl' and 'init' in e:
                    ini = [x for x in e.get('inner', []) if x.get('kind') not in ('FullComment',)]
                    if ini:
                        init, lv, ty = strip(ini[-1], casts=True), e['name'], qtype(e)
                elif is_assign(e) and e['opcode'] == '=':
                    init, lv, ty = strip(e['inner'][1], casts=True), render(e['inner'][0]).replace(' ', ''), qtype(strip(e['inner'][0]))
                if init is None or init.get('kind') != 'CallExpr' or callee_name(init) != 'malloc':
                    continue
                st = _struct_of(ty + ' ') or _struct_of(ty)
                if not st or st not in dts:
                    continue
                if 'sizeof(struct %s)' % st not in render(init).replace('sizeof (', 'sizeof(') or '*' in render(call_args(init)[0]):
                    continue          # arrays of records are filled element by element; only single records here
                n += 1
                where = 'src/%s:%s %s' % (c, line_of(e), fname)
                ok = False
                why = ''
                for x in walk(cfront.body(fn)):
                    if x.get('kind') != 'CallExpr':
                        continue
                    nm = callee_name(x)
                    args = [render(a).replace(' ', '') for a in call_args(x)]
                    if nm == 'memset' and args and args[0] in (lv, '(*%s)' % lv) and args[1] == '0':
                        ok, why = True, 'memset to zero'
                    elif nm in allf and lv in args:
                        callee = allf[nm]
                        cps = [p.get('name') for p in cfront.params(callee)]
                        pn = cps[args.index(lv)] if args.index(lv) < len(cps) else None
                        if pn:
                            got = top_level_assigned(callee, pn)
                            if got is None or dts[st] <= got:
                                ok, why = True, 'initialised by %s' % nm
                if not ok:
                    assigned_here = {strip(a['inner'][0])['name'] for a in walk(cfront.body(fn)) if is_assign(a) and strip(a['inner'][0]).get('kind') == 'MemberExpr'
                                     and render(strip(a['inner'][0])['inner'][0]).replace(' ', '') == lv}
                    if dts[st] <= assigned_here:
                        ok, why = True, 'all freed members assigned in place'
                if ok:
                    if len(samples) < 6:
                        samples.append('%s: struct %s from malloc, %s' % (where, st, why))
                else:
                    ctx.report(rule, '%s:malloc:%s' % (fname, st), where,
                               'struct %s is taken from malloc and not zeroed, but its destructor frees %s: an error path that releases the record before those members were assigned frees wild pointers'
                               % (st, sorted(dts[st])))
    ctx.covered(rule, 'records with a destructor are allocated zeroed (calloc / memset / unconditional initialiser): %d record types have destructors' % len(dts), n, floor=1, samples=samples)
    return dts
