"""Growable buffers and their capacity counters (R14.8).

Every growable array of the simulation is guarded by a capacity member: growth sites have the form
`if/while (<test involving S.C>) { ... S.P = realloc(S.P, ...) ... }`. The pairs (S.P -> S.C) are collected from those
sites. Invariant: S.P points to at least S.C elements. A function that releases S.P (free or assignment of NULL) must
also assign the paired counter(s) in the same function, otherwise the next growth test passes on a stale capacity and the
following write goes through a dangling or NULL pointer."""
import re

from ..core import AnalysisError, anchor
from .. import cfront, normal
from ..cfront import walk, strip, render, is_assign, callee_name, call_args, line_of, qtype

DESTRUCTORS = {
    'reb_simulation_free_pointers': 'destructor of the whole simulation object: every later use starts with reb_simulation_init, which zeroes all counters',
}


def _member_key(e):
    """(struct type of the base, member name) of a MemberExpr, else None."""
    e = strip(e, casts=True)
    if e.get('kind') != 'MemberExpr':
        return None
    bt = qtype(strip(e['inner'][0]))
    bt = re.sub(r'\b(const|restrict|__restrict|volatile)\b', '', bt).replace('*', '').strip()
    return (bt, e['name'])


def _members_in(e):
    out = []
    for x in walk(e):
        if x.get('kind') == 'MemberExpr':
            k = _member_key(x)
            if k and ('int' in qtype(x) or 'size_t' in qtype(x)) and '*' not in qtype(x):
                out.append(k)
    return out


def growth_pairs(tus):
    """{(S, P): {(S, C), ...}} with the sites they were seen at."""
    pairs = {}
    sites = {}

    def visit(node, conds, fname, cfile):
        k = node.get('kind')
        if k in ('IfStmt', 'WhileStmt'):
            c = node['inner'][0]
            for ch in node['inner'][1:]:
                visit(ch, conds + [c], fname, cfile)
            return
        if is_assign(node) and node['opcode'] == '=':
            rhs = strip(node['inner'][1], casts=True)
            if rhs.get('kind') == 'CallExpr' and callee_name(rhs) in ('realloc', 'malloc', 'calloc') and conds:
                pk = _member_key(node['inner'][0])
                if pk:
                    cs = [m for m in _members_in(conds[-1]) if m[0] == pk[0] and 'allocated' in m[1].lower()]
                    for ck in cs:
                        pairs.setdefault(pk, set()).add(ck)
                        sites.setdefault(pk, []).append('src/%s:%s %s' % (cfile, line_of(node), fname))
        for ch in node.get('inner', []) or []:
            if isinstance(ch, dict):
                visit(ch, conds, fname, cfile)

    for c, tu in sorted(tus.items()):
        for fname, fn in tu.funcs.items():
            if cfront.basename(fn.get('_locfile') or fn.get('_file')) != c:
                continue
            # `if (room) return; grow;` is read as `if (!room) { grow; }`
            visit(cfront.body(normal.normalised_function(fn)), [], fname, c)
    return pairs, sites


def rule_release_resets_capacity(ctx, rule='R14.8'):
    tus = cfront.load_tus()
    pairs, sites = growth_pairs(tus)
    anchor(('struct reb_simulation', 'particles') in pairs and ('struct reb_simulation', 'particle_lookup_table') in pairs,
           'growth sites of r->particles and r->particle_lookup_table')
    n = 0
    samples = []
    for c, tu in sorted(tus.items()):
        for fname, fn in tu.funcs.items():
            if cfront.basename(fn.get('_locfile') or fn.get('_file')) != c:
                continue
            released = {}
            assigned = set()
            for e in walk(cfront.body(fn)):
                if e.get('kind') == 'CallExpr' and callee_name(e) == 'free' and call_args(e):
                    pk = _member_key(call_args(e)[0])
                    if pk in pairs:
                        released.setdefault(pk, line_of(e))
                elif is_assign(e) and e['opcode'] == '=':
                    lk = _member_key(e['inner'][0])
                    if lk is None:
                        continue
                    rhs = render(e['inner'][1]).replace(' ', '')
                    if lk in pairs and rhs in ('0', '((void*)0)', 'NULL'):
                        released.setdefault(lk, line_of(e))
                    assigned.add(lk)
            for pk, line in sorted(released.items()):
                n += 1
                missing = [ck for ck in sorted(pairs[pk]) if ck not in assigned]
                where = 'src/%s:%s %s' % (c, line, fname)
                if fname in DESTRUCTORS:
                    ctx.note('%s: %s releases %s without resetting %s - %s' % (rule, fname, pk[1], ', '.join(m[1] for m in missing) or '-', DESTRUCTORS[fname])) if missing else None
                    continue
                if missing:
                    ctx.report(rule, '%s:%s' % (fname, pk[1]), where,
                               '%s releases %s.%s but leaves its capacity counter %s unchanged: the growth test (%s) then trusts a stale capacity and the next write goes through a freed or NULL pointer'
                               % (fname, pk[0].replace('struct ', ''), pk[1], ', '.join(m[1] for m in missing), sites[pk][0]))
                elif len(samples) < 6:
                    samples.append('%s releases %s and resets %s' % (where, pk[1], ', '.join(m[1] for m in sorted(pairs[pk]))))
    ctx.covered(rule, 'functions releasing a growable buffer also reset its capacity counter (pairs taken from the growth sites: %d buffers)' % len(pairs), n, floor=20, samples=samples)
    return pairs


def _canon(s):
    return s.replace(' ', '').replace('(', '').replace(')', '')


TESTS = {}


def growth_needs(tus, pairs):
    """{counter key: set of canonical 'needed element count' expressions the owner's growth tests compare it with}."""
    counters = {c for v in pairs.values() for c in v}
    needs = {}
    TESTS.clear()
    for c, tu in sorted(tus.items()):
        for fname, fn in tu.funcs.items():
            if cfront.basename(fn.get('_locfile') or fn.get('_file')) != c:
                continue
            assigns = {}
            for e in walk(cfront.body(fn)):
                if is_assign(e) and e['opcode'] == '=' and strip(e['inner'][0]).get('kind') == 'DeclRefExpr':
                    assigns.setdefault(render(e['inner'][0]), set()).add(_canon(render(e['inner'][1])))
                if e.get('kind') == 'VarDecl' and 'init' in e:
                    init = [x for x in e.get('inner', []) if x.get('kind') not in ('FullComment',)]
                    if init:
                        assigns.setdefault(e['name'], set()).add(_canon(render(init[-1])))
            for st in walk(cfront.body(fn)):
                if st.get('kind') not in ('IfStmt', 'WhileStmt'):
                    continue
                cond = strip(st['inner'][0])
                if cond.get('kind') != 'BinaryOperator' or cond['opcode'] not in ('<', '>', '<=', '>=', '!='):
                    continue
                if not any(is_assign(e) and strip(e['inner'][1], casts=True).get('kind') == 'CallExpr' and callee_name(strip(e['inner'][1], casts=True)) == 'realloc'
                           or (e.get('kind') == 'CallExpr' and (callee_name(e) or '').startswith('realloc_')) for e in walk(st)):
                    continue
                sides = [cond['inner'][0], cond['inner'][1]]
                for i in (0, 1):
                    ck = _member_key(sides[i])
                    if ck in counters:
                        # the test read as `capacity OP need`
                        op = cond['opcode'] if i == 0 else {'<': '>', '>': '<', '<=': '>=', '>=': '<=', '!=': '!='}[cond['opcode']]
                        TESTS.setdefault(ck, []).append((op, 'src/%s:%s %s' % (c, line_of(st), fname), render(cond)))
                        other = render(sides[1 - i])
                        vals = assigns.get(other, {_canon(other)})
                        needs.setdefault(ck, set()).update(vals)
    return needs


def rule_capacity_trim(ctx, rule, cfile, fname):
    """A function outside the owner that lowers a capacity counter (the serialiser trims the IAS15 arrays before writing
    them) may only lower it to a count the owner's growth test itself asks for; anything smaller makes the owner
    reallocate and zero its arrays at the next step, i.e. saving or serving a snapshot changes the trajectory."""
    tus = cfront.load_tus()
    pairs, sites = growth_pairs(tus)
    needs = growth_needs(tus, pairs)
    counters = {c for v in pairs.values() for c in v}
    fn = tus[cfile].func(fname)
    n = 0
    samples = []
    for e in walk(cfront.body(fn)):
        if not (is_assign(e) and e['opcode'] == '='):
            continue
        ck = _member_key(e['inner'][0])
        if ck not in counters:
            continue
        n += 1
        from . import extents
        v = _canon(extents.resolve(render(e['inner'][1]), extents.lets(fn)))
        where = 'src/%s:%s %s' % (cfile, line_of(e), fname)
        if v not in needs.get(ck, set()):
            ctx.report(rule, '%s:%s' % (fname, ck[1]), where,
                       '%s sets %s.%s to %s; the owner of the arrays sizes them for %s - a smaller value makes the next step reallocate and reset them, so saving/serving a snapshot alters the run'
                       % (fname, ck[0].replace('struct ', ''), ck[1], render(e['inner'][1]), ' or '.join(sorted(needs.get(ck, {'?'})))))
        else:
            samples.append('%s trims %s to %s, one of the owner\'s sizes %s' % (where, ck[1], v, sorted(needs[ck])))
        # lowering the counter from any value >= need down to need must not change the outcome of the owner's growth test:
        # only `capacity < need` has that property (`!=` and `<=` fire for a larger-than-needed capacity and not for the trimmed one)
        # the owner's growth block must only enlarge: if it also resets state of the particles that were there before (a loop
        # that zeroes whole arrays), then whether the capacity was trimmed decides whether that state survives the next growth
        for c_, tu_ in sorted(tus.items()):
            for fname_, f_ in sorted(tu_.funcs.items()):
                if cfront.body(f_) is None or cfront.basename(f_.get('_locfile') or f_.get('_file')) != c_ or fname_ == fname:
                    continue
                for ifs in walk(cfront.body(f_)):
                    if ifs.get('kind') != 'IfStmt':
                        continue
                    if ck not in [_member_key(m_) for m_ in walk(ifs['inner'][0]) if m_.get('kind') == 'MemberExpr']:
                        continue
                    if not any(is_assign(x_) and _member_key(x_['inner'][0]) == ck for x_ in walk(ifs['inner'][1])):
                        continue
                    for lp in walk(ifs['inner'][1]):
                        if lp.get('kind') != 'ForStmt':
                            continue
                        init0 = ''
                        for d_ in walk(lp['inner'][0] or {}):
                            if d_.get('kind') == 'VarDecl' and 'init' in d_:
                                ini_ = [c2 for c2 in d_.get('inner', []) if c2.get('kind') not in ('FullComment',)]
                                init0 = '=' + (render(ini_[-1]).replace(' ', '') if ini_ else '')
                            elif is_assign(d_):
                                init0 = '=' + render(d_['inner'][1]).replace(' ', '')
                        stores = [x_ for x_ in walk(lp['inner'][-1]) if is_assign(x_) and x_['opcode'] == '=' and strip(x_['inner'][0]).get('kind') == 'ArraySubscriptExpr'
                                  and render(x_['inner'][1]).strip() in ('0', '0.', '0.0')]
                        if stores and re.search(r'=0\)?$', init0):
                            n += 1
                            ctx.report(rule, '%s:%s:reset-on-growth' % (fname, ck[1]), 'src/%s:%s %s' % (c_, line_of(lp), fname_),
                                       'when %s grows the arrays guarded by %s it also clears %s for every particle from index 0 (not just the new ones); %s (%s) lowers that capacity to the needed size, so whether a snapshot or copy was taken decides whether the next added particle triggers the reset - taking a copy changes the later evolution of the source'
                                       % (fname_, ck[1], render(strip(stores[0]['inner'][0])['inner'][0]), fname, where))
        for op, tw, txt in TESTS.get(ck, []):
            n += 1
            if op != '<':
                ctx.report(rule, '%s:%s:test' % (fname, ck[1]), tw,
                           'the owner decides with %s whether to reallocate and reset the arrays guarded by %s, and %s (%s) lowers that counter to the needed size: whether a snapshot was written or served at that moment now decides whether the reset happens (after a removal the untrimmed capacity differs from the need, the trimmed one does not)'
                           % (txt, ck[1], fname, where))
    return n, samples
