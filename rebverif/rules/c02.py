"""C02 - force routines compute the pairwise Newtonian sum: static necessary conditions."""
import re
from ..core import AnalysisError, anchor
from .. import cfront
from ..cfront import walk, render, line_of
from . import x1, x3, pairloops as P

FORCE_FILES = ['gravity.c', 'integrator_eos.c', 'integrator_whfast.c']


def all_pair_loops():
    out = {}
    for cfile in FORCE_FILES:
        tu = cfront.load_tu(cfile)
        lst = []
        for name, fn in tu.funcs.items():
            if cfront.basename(fn.get('_locfile') or fn.get('_file')) != cfile:
                continue
            lst += P.find_pair_loops(tu, fn)
        out[cfile] = lst
    return out


def rule_dispatch(ctx):
    n, samples = x3.check(ctx, 'R02.1', ['gravity.c'], exceptions={
        ('reb_calculate_acceleration', 'REB_GRAVITY_NONE'): 'handled: no forces',
    }, member_filter=lambda c: c in ('r.gravity', 'r.ri_trace.mode'))
    ctx.covered('R02.1', 'switches over the gravity routine / TRACE mode in gravity.c are exhaustive or report an error', n, floor=3, samples=samples)


def rule_components(ctx):
    files = ['gravity.c', 'boundary.c', 'tree.c', 'integrator_eos.c', 'integrator_whfast.c', 'rebound.c']
    only = {'integrator_eos.c': {'reb_integrator_eos_interaction_shell0', 'reb_integrator_eos_interaction_shell1'},
            'integrator_whfast.c': {'reb_whfast_interaction_step', 'reb_whfast_calculate_jerk', 'reb_whfast_jump_step', 'reb_whfast_com_step'},
            'boundary.c': {'reb_boundary_get_ghostbox'},
            'rebound.c': {'reb_simulation_configure_box', 'reb_simulation_init'},   # box edges: the period of the ghost images
            'tree.c': {'reb_tree_update_gravity_data_in_cell', 'reb_calculate_acceleration_for_particle_from_cell', 'reb_tree_add_particle_to_cell'}}
    tus = cfront.load_tus(files)
    stats = {'groups': 0, 'samples': []}
    for c in files:
        tu = tus[c]
        for name, fn in sorted(tu.funcs.items()):
            if cfront.basename(fn.get('_locfile') or fn.get('_file')) != c:
                continue
            if c in only and name not in only[c]:
                continue
            if name in x1.ANISOTROPIC:
                continue
            x1.check_function(tu, fn, ctx.report, stats, 'R02.2')
    ctx.covered('R02.2', 'x/y/z statement triples of every force loop, the ghost-box shifts, the tree cell walk and the WH/EOS interaction steps are one formula under an axis permutation',
                stats['groups'], floor=150, samples=stats['samples'])


def rule_pairs(ctx):
    loops = all_pair_loops()
    n7 = n3 = 0
    s7, s3 = [], []
    for cfile, lst in loops.items():
        a, b = P.rule_pair_index(ctx, 'R02.7', lst, cfile)
        n7 += a
        s7 += b
        a, b = P.rule_antisymmetry(ctx, 'R02.3', [pl for pl in lst if pl.fn != 'reb_calculate_acceleration_var'], cfile)
        n3 += a
        s3 += b
    ctx.covered('R02.7', 'per-particle array subscripts inside pair loops use one of the two pair indices (through the encounter map where the loop runs over encounter indices)',
                n7, floor=40, samples=s7)
    ctx.covered('R02.3', 'pair loops that update both bodies: m_A*dA + m_B*dB = 0 (polynomial identity after inlining the local definitions)', n3, floor=8, samples=s3)
    return loops


def rule_split(ctx, loops):
    """R02.5 / R02.5b: the two halves of the MERCURIUS and TRACE force splittings are complementary:
    MERCURIUS weights the same pair classes with L (mode 0) and 1-L (mode 1); TRACE masks them with K and !K."""
    import sympy as sp
    g = [pl for pl in loops['gravity.c'] if pl.fn == 'reb_calculate_acceleration']
    n = 0
    samples = []
    merc0 = [pl for pl in g if pl.cases[:2] == ('REB_GRAVITY_MERCURIUS', 'case 0')]
    merc1 = [pl for pl in g if pl.cases[:2] == ('REB_GRAVITY_MERCURIUS', 'case 1')]
    anchor(len(merc0) >= 2 and len(merc0) == len(merc1), 'MERCURIUS force loops: as many pair loops in mode 0 as in mode 1')
    for a, b in zip(merc0, merc1):
        n += 1
        where = 'src/gravity.c:%s/%s reb_calculate_acceleration (MERCURIUS mode 0 / mode 1)' % (a.line, b.line)
        key = 'mercurius:split:%s' % a.inner[2]
        sa, sb = {}, {}
        ea, eb = P.prefactor_in_L(a, sa), P.prefactor_in_L(b, sb)
        if ea is None or eb is None:
            raise AnalysisError('R02.5: cannot read the force prefactor of the MERCURIUS loops at lines %s/%s' % (a.line, b.line))
        La, Lb = sa.get('L'), sb.get('L')
        if La is None or Lb is None:
            ctx.report('R02.5', key + ':noL', where, 'one half of the split force does not contain the changeover function L')
            continue
        if sp.simplify(ea.subs(La, 0)) != 0:
            ctx.report('R02.5', key + ':mode0', where, 'the WH half of the force is not proportional to L (it does not vanish for L=0)')
        if sp.simplify(eb.subs(Lb, 1)) != 0:
            ctx.report('R02.5', key + ':mode1', where, 'the encounter half of the force is not proportional to (1-L) (it does not vanish for L=1): the two halves do not add up to the full force')
        # the full-strength prefactors agree under the renaming of the pair indices
        fa = sp.simplify(ea.subs(La, 1))
        fb = sp.simplify(eb.subs(Lb, 0))
        ra = {v: k.replace('[%s]' % a.A, '[A]').replace('[%s]' % a.B, '[B]') for k, v in sa.items()}
        rb = {v: k.replace('[%s]' % b.A, '[A]').replace('[%s]' % b.B, '[B]') for k, v in sb.items()}
        xa = fa.subs({s_: sp.Symbol(nm) for s_, nm in ra.items()})
        xb = fb.subs({s_: sp.Symbol(nm) for s_, nm in rb.items()})
        if sp.simplify(xa - xb) != 0:
            ctx.report('R02.5', key + ':strength', where, 'at full strength the two halves are different forces: %s vs %s' % (xa, xb))
        # the same changeover argument: L(r, max(dcrit[A], dcrit[B]))
        for pl, syms in ((a, sa), (b, sb)):
            dm = pl.lets.get('dcritmax')
            if dm is not None:
                txt = render(P.resolve(dm, {}))
                want = {'dcrit[%s]' % pl.A, 'dcrit[%s]' % pl.B}
                got = {x for x in want if x in txt}
                if got != want:
                    ctx.report('R02.5', key + ':dcrit:%s' % pl.cases[1], 'src/gravity.c:%s reb_calculate_acceleration' % pl.line,
                               'the changeover distance is %s, not the larger critical radius of the two bodies of the pair (%s,%s)' % (txt, pl.A, pl.B))
        # R02.5b loop domains: same shape under the renaming _N_active<->encounter_N_active, _N_real<->encounter_N
        def shape(pl):
            s = '%s|%s|%s|%s' % (pl.outer[1], pl.outer[2], pl.inner[1], pl.inner[2])
            return s.replace('encounter_N_active', 'NA').replace('_N_active', 'NA').replace('encounter_N', 'NR').replace('_N_real', 'NR')
        if shape(a) != shape(b):
            ctx.report('R02.5b', key + ':domain', where, 'the two halves range over different pair classes: mode 0 %s, mode 1 %s' % (shape(a), shape(b)))
        samples.append('%s: L / (1-L), same strength, same domain %s' % (where, shape(a)))
    # TRACE
    ti = [pl for pl in g if pl.cases[:2] == ('REB_GRAVITY_TRACE', 'REB_TRACE_MODE_INTERACTION')]
    tk = [pl for pl in g if pl.cases[:2] == ('REB_GRAVITY_TRACE', 'REB_TRACE_MODE_KEPLER')]
    anchor(len(ti) >= 2 and len(ti) == len(tk), 'TRACE force loops: as many pair loops in the interaction half as in the Kepler half')
    for a, b in zip(ti, tk):
        n += 1
        where = 'src/gravity.c:%s/%s reb_calculate_acceleration (TRACE interaction / Kepler)' % (a.line, b.line)
        key = 'trace:split:%s' % a.inner[2]
        ga = [x for x in a.guards if 'current_Ks' in x]
        gb = [x for x in b.guards if 'current_Ks' in x]
        if len(ga) != 1 or len(gb) != 1:
            ctx.report('R02.5', key + ':mask', where, 'a half of the TRACE force split is not masked by current_Ks (interaction: %s, Kepler: %s)' % (ga, gb))
            continue
        na = ga[0].replace('[((%s*N)+%s)]' % (a.B, a.A), '[PAIR]').replace('[((%s*N)+%s)]' % (a.A, a.B), '[PAIRSWAPPED]')
        nb = gb[0].replace('[((%s*N)+%s)]' % (b.B, b.A), '[PAIR]').replace('[((%s*N)+%s)]' % (b.A, b.B), '[PAIRSWAPPED]')
        if not (nb == '!' + na and 'PAIR]' in na and 'SWAPPED' not in na):
            ctx.report('R02.5', key + ':complement', where, 'the masks of the two halves are not logical complements over the same matrix entry: skip-if %s vs skip-if %s' % (ga[0], gb[0]))
        def shape(pl):
            s = '%s|%s|%s|%s' % (pl.outer[1], pl.outer[2], pl.inner[1], pl.inner[2])
            return s.replace('encounter_N_active', 'NA').replace('_N_active', 'NA').replace('encounter_N', 'NR').replace('_N_real', 'NR')
        if shape(a) != shape(b):
            ctx.report('R02.5b', key + ':domain', where, 'the two halves range over different pair classes: interaction %s, Kepler %s' % (shape(a), shape(b)))
        samples.append('%s: masks %s / %s' % (where, ga[0], gb[0]))
    ctx.covered('R02.5', 'hybrid force splittings: L and 1-L weights (MERCURIUS), K and !K masks (TRACE), equal strength, equal pair domains', n, floor=4, samples=samples)


def rule_pair_domains(ctx):
    """R02.8: the pairs visited by the loops of a gravity routine are exactly the specified set."""
    from . import pairdomain as D
    tu = cfront.load_tu('gravity.c')
    groups = [('reb_calculate_acceleration', ('REB_GRAVITY_BASIC',), False, True), ('reb_calculate_acceleration', ('REB_GRAVITY_COMPENSATED',), False, True),
              ('reb_calculate_acceleration', ('REB_GRAVITY_MERCURIUS', 'case 0'), True, False), ('reb_calculate_acceleration', ('REB_GRAVITY_TRACE', 'REB_TRACE_MODE_INTERACTION'), True, False)]
    n = 0
    samples = []
    for fname, cases, no0, uses_ignore in groups:
        fn = tu.func(fname)
        lets = D.fn_lets(fn)
        pls = [pl for pl in P.find_pair_loops(tu, fn) if tuple(pl.cases) == cases]
        anchor(len(pls) >= 2, 'active-active and test-particle pair loops of %s %s' % (fname, '/'.join(cases)))
        configs = 0
        bad = None
        for nraw in (-1, 1, 2, 3):
            for ntest in (0, 1, 2, 3):
                nact = (2 + ntest) if nraw == -1 else nraw
                nreal = nact if nraw == -1 else nact + ntest
                for tt in (0, 1):
                    for ig in ((0, 1, 2) if uses_ignore else (0,)):
                        env = {'r.N': nreal, 'r.N_var': 0, 'r.N_active': nraw, 'r.gravity_ignore_terms': ig, 'r.testparticle_type': tt}
                        seen = []
                        try:
                            for pl in pls:
                                e2 = dict(env)
                                if any('current_Ks' in g for g in pl.guards):
                                    pass
                                seen += D.visited(pl, e2, lets)
                        except D.Unknown as ex:
                            raise AnalysisError('R02.8: cannot evaluate the iteration space of %s %s: %s' % (fname, '/'.join(cases), ex))
                        configs += 1
                        got = [frozenset(p_) for p_ in seen]
                        want = D.spec(nact, nreal, ig, no0)
                        if (set(got) != want or len(got) != len(set(got))) and bad is None:
                            missing = sorted(tuple(sorted(x)) for x in want - set(got))
                            extra = sorted(tuple(sorted(x)) for x in set(got) - want if len(x) == 2)
                            selfp = [tuple(p_) for p_ in seen if p_[0] == p_[1]]
                            dup = len(got) - len(set(got))
                            bad = (nraw, nreal, tt, ig, missing, extra, selfp, dup)
        n += configs
        where = 'src/gravity.c:%s %s %s' % (pls[0].line, fname, '/'.join(cases))
        if bad:
            nraw, nreal, tt, ig, missing, extra, selfp, dup = bad
            ctx.report('R02.8', '%s:%s:domain' % (fname, '/'.join(cases)), where,
                       'with N_active=%d, %d real particles, testparticle_type=%d, gravity_ignore_terms=%d the loops visit the wrong pair set: missing %s, unexpected %s, self-pairs %s, visited twice: %d'
                       % (nraw, nreal, tt, ig, missing[:4], extra[:4], selfp[:2], dup))
        else:
            samples.append('%s: %d count/option orderings, pair set == specification' % (where, configs))
    ctx.covered('R02.8', 'iteration spaces of the direct, compensated and hybrid-interaction pair loops equal the specified pair set for every ordering of the counts and every gravity_ignore_terms', n, floor=150, samples=samples)


DIM_SCOPE = [('gravity.c', None),
             ('integrator_whfast.c', {'reb_whfast_interaction_step', 'reb_whfast_jump_step', 'reb_whfast_com_step'}),
             ('integrator_mercurius.c', {'reb_integrator_mercurius_interaction_step', 'reb_integrator_mercurius_jump_step', 'reb_integrator_mercurius_kepler_step',
                                         'reb_mercurius_encounter_predict', 'reb_integrator_mercurius_calculate_dcrit_for_particle', 'reb_integrator_mercurius_inertial_to_dh'}),
             ('integrator_trace.c', {'reb_integrator_trace_interaction_step', 'reb_integrator_trace_jump_step', 'reb_integrator_trace_switch_default',
                                     'reb_integrator_trace_switch_peri_default', 'reb_integrator_trace_inertial_to_dh'}),
             ('integrator_leapfrog.c', None), ('integrator_eos.c', {'reb_integrator_eos_interaction_shell0', 'reb_integrator_eos_interaction_shell1', 'reb_integrator_eos_drift_shell1',
                                                                       'reb_integrator_eos_drift_shell0'})]


def rule_dimensions(ctx):
    """R02.4: every sum, difference, accumulation and comparison in the force routines and in the kick/drift/jump
    operators is dimensionally homogeneous over (L, T, M) with G = L^3 T^-2 M^-1 - a dropped or doubled G, mass, softening
    or distance factor is a dimension clash."""
    from . import e9
    n = 0
    samples = []
    nfun = 0
    for cfile, only in DIM_SCOPE:
        tu = cfront.load_tu(cfile)
        for name, fn in sorted(tu.funcs.items()):
            if cfront.basename(fn.get('_locfile') or fn.get('_file')) != cfile:
                continue
            if only is not None and name not in only:
                continue
            params = {}
            for p_ in cfront.params(fn):
                if p_.get('name') in ('dt', '_dt', 'a', 'b', 'y') and 'double' in cfront.qtype(p_) and '*' not in cfront.qtype(p_):
                    params[p_['name']] = e9.T_
                if p_.get('name') == 'v' and 'double' in cfront.qtype(p_) and '*' not in cfront.qtype(p_):
                    params['v'] = e9.D(0, 3, 0)        # weight of the jerk term: every caller passes a multiple of dt^3
            # parameters of functions of this file that the naming convention types (G, softening2, dt ..) are checked at
            # every call site: the argument handed over must have the dimension the callee computes with
            NAMES = {'G': e9.G_, 'softening2': e9.D(2)}
            callee_params = {}
            for cname, cfn in tu.funcs.items():
                dims = []
                for p_ in cfront.params(cfn):
                    d_ = None
                    if 'double' in cfront.qtype(p_) and '*' not in cfront.qtype(p_):
                        d_ = NAMES.get(p_.get('name'))
                        if d_ is None and p_.get('name') in ('dt', '_dt'):
                            d_ = e9.T_
                    dims.append(d_)
                if any(d_ is not None for d_ in dims):
                    callee_params[cname] = dims
            t = e9.Typer(fn, params=params, names=NAMES, callee_params=callee_params).run()
            nfun += 1
            n += t.checked
            for line, what, a, b, txt in t.conflicts:
                ctx.report('R02.4', '%s:dim:%s' % (name, re.sub(r'\s+', '', txt)[:48]), 'src/%s:%s %s' % (cfile, line, name),
                           'dimension clash in %s: %s vs %s in %s' % (what, a, b, txt))
            if t.checked and len(samples) < 6:
                samples.append('src/%s %s: %d operations typed, %d not inferable, no clash' % (cfile, name, t.checked, t.unknown))
    ctx.covered('R02.4', 'dimension typing (L,T,M) of the force routines and the kick/drift/jump operators of every scheme: %d functions' % nfun, n, floor=900, samples=samples)


def run(ctx):
    from . import protocol
    protocol.rule_active_bound(ctx, 'R02.12')            # index < N_active decides 'active' at every site
    protocol.rule_root_loops(ctx, 'R02.13')              # tree forces visit every root box
    protocol.rule_jerk_loop_starts(ctx, 'R01.15')
    from . import c15
    c15.rule_tree_geometry(ctx)     # R15.3/R15.4: particles are filed in the root box that contains them (or they exert no force)
    from . import c14 as _c14
    _c14.rule_active_count(ctx)     # R14.5: the active counts (global and of an encounter) are decremented for exactly the active particles
    from . import c15
    c15.rule_axis_conditions(ctx)     # R15.9: root-box lookups treat x, y and z alike (particles in the wrong root box exert no force)
    from . import c15
    c15.rule_moments_every_time(ctx)     # R15.12: tree forces are computed from current sources
    rule_dimensions(ctx)
    from . import c15
    c15.rule_axis_conditions(ctx, 'R02.10', files=('tree.c', 'gravity.c'), floor=1)
    c15.rule_cell_moments(ctx, 'R02.11')       # every cell the walk may accept as a monopole carries the mass and centre of mass of its contents   # a particle that left its cell in any direction is re-inserted: the multipole of a cell describes its contents
    rule_pair_domains(ctx)
    from . import jerkdomain
    jerkdomain.rule_jerk_domain(ctx, 'R02.14')              # the jerk corrects the kick: same pair set, never two test particles
    jerkdomain.rule_jacobi_direct_domain(ctx, 'R02.15')     # Jacobi-split routine: the guard of the direct term admits the specified pairs only
    from . import indexspace
    indexspace.rule_index_spaces(ctx, 'R02.9')
    rule_dispatch(ctx)
    rule_components(ctx)
    loops = rule_pairs(ctx)
    rule_split(ctx, loops)
    ctx.not_decided.append('numeric equality with the Newtonian sum; equality of the loop domains with the mathematical pair set for all (N, N_active, type, ignore terms); '
                           'tree opening-angle error bound; accuracy of the compensated summation; OPENMP variants (thorough tier)')
