"""Interval evaluation of a scalar C expression (abstract interpretation over the reals, half-open ends tracked):
enough for range claims about small closed-form helpers (angle reductions, clamps). Unknown constructs give TOP."""
import math

from .. import cfront
from ..cfront import strip, callee_name, call_args

INF = math.inf


class Iv:
    __slots__ = ('lo', 'hi', 'lo_open', 'hi_open')

    def __init__(self, lo, hi, lo_open=False, hi_open=False):
        self.lo, self.hi, self.lo_open, self.hi_open = lo, hi, lo_open or lo == -INF, hi_open or hi == INF

    def __repr__(self):
        return '%s%g, %g%s' % ('(' if self.lo_open else '[', self.lo, self.hi, ')' if self.hi_open else ']')

    def within(self, o):
        lo_ok = self.lo > o.lo or (self.lo == o.lo and (self.lo_open or not o.lo_open))
        hi_ok = self.hi < o.hi or (self.hi == o.hi and (self.hi_open or not o.hi_open))
        return lo_ok and hi_ok


TOP = Iv(-INF, INF)


def const(v):
    return Iv(v, v)


def add(a, b):
    return Iv(a.lo + b.lo, a.hi + b.hi, a.lo_open or b.lo_open, a.hi_open or b.hi_open)


def neg(a):
    return Iv(-a.hi, -a.lo, a.hi_open, a.lo_open)


def mul(a, b):
    if any(math.isinf(x) for x in (a.lo, a.hi, b.lo, b.hi)):
        if a.lo == a.hi and a.lo > 0:
            return Iv(b.lo * a.lo if not math.isinf(b.lo) else b.lo, b.hi * a.lo if not math.isinf(b.hi) else b.hi, b.lo_open, b.hi_open)
        if b.lo == b.hi and b.lo > 0:
            return mul(b, a)
        return TOP
    cs = [(a.lo * b.lo, a.lo_open or b.lo_open), (a.lo * b.hi, a.lo_open or b.hi_open), (a.hi * b.lo, a.hi_open or b.lo_open), (a.hi * b.hi, a.hi_open or b.hi_open)]
    lo = min(cs, key=lambda c: (c[0], c[1]))
    hi = max(cs, key=lambda c: (c[0], not c[1]))
    return Iv(lo[0], hi[0], lo[1], hi[1])


def fmod(x, m):
    """C fmod: result has the sign of x and magnitude < |m|; identity when |x| < |m|"""
    if not (m.lo == m.hi and m.lo > 0):
        return TOP
    M = m.lo
    if x.lo >= 0 and (x.hi < M or (x.hi == M and x.hi_open)):
        return x
    if x.lo >= 0:
        return Iv(0.0, M, False, True)
    if x.hi <= 0:
        return Iv(-M, 0.0, True, False)
    return Iv(-M, M, True, True)


def evaluate(e, env):
    e = strip(e, casts=True)
    k = e.get('kind')
    if k in ('FloatingLiteral', 'IntegerLiteral'):
        return const(float(e['value']))
    if k == 'DeclRefExpr':
        return env.get(e['referencedDecl']['name'], TOP)
    if k == 'UnaryOperator' and e.get('opcode') == '-':
        return neg(evaluate(e['inner'][0], env))
    if k == 'BinaryOperator':
        a, b = evaluate(e['inner'][0], env), evaluate(e['inner'][1], env)
        if e['opcode'] == '+':
            return add(a, b)
        if e['opcode'] == '-':
            return add(a, neg(b))
        if e['opcode'] == '*':
            return mul(a, b)
        return TOP
    if k == 'ConditionalOperator':
        return evaluate_cond(e, env)
    if k == 'CallExpr':
        f = callee_name(e)
        args = call_args(e)
        if f == 'fmod' and len(args) == 2:
            return fmod(evaluate(args[0], env), evaluate(args[1], env))
        if f in ('fabs', '__builtin_fabs') and len(args) == 1:
            a = evaluate(args[0], env)
            if a.lo >= 0:
                return a
            if a.hi <= 0:
                return neg(a)
            return Iv(0.0, max(-a.lo, a.hi), False, a.lo_open if -a.lo > a.hi else a.hi_open)
        if f == 'atan' and len(args) == 1:
            return Iv(-math.pi / 2, math.pi / 2, False, False)
        if f == 'atan2':
            return Iv(-math.pi, math.pi)
        if f == 'acos':
            return Iv(0.0, math.pi)
    return TOP


def join(a, b):
    lo_open = (a.lo_open if a.lo < b.lo else b.lo_open) if a.lo != b.lo else (a.lo_open and b.lo_open)
    hi_open = (a.hi_open if a.hi > b.hi else b.hi_open) if a.hi != b.hi else (a.hi_open and b.hi_open)
    return Iv(min(a.lo, b.lo), max(a.hi, b.hi), lo_open, hi_open)


def meet(a, b):
    lo, lo_open = max((a.lo, a.lo_open), (b.lo, b.lo_open))
    hi, hi_open = min((a.hi, not a.hi_open), (b.hi, not b.hi_open))
    hi_open = not hi_open
    if lo > hi or (lo == hi and (lo_open or hi_open)):
        return None
    return Iv(lo, hi, lo_open, hi_open)


def refine(env, cond, truth):
    """env narrowed by `x OP c` (x a local/parameter, c evaluating to a constant); None when the branch is infeasible"""
    c = strip(cond, casts=True)
    if c.get('kind') == 'UnaryOperator' and c.get('opcode') == '!':
        return refine(env, c['inner'][0], not truth)
    if not (c.get('kind') == 'BinaryOperator' and c.get('opcode') in ('<', '<=', '>', '>=')):
        return env
    a, b = strip(c['inner'][0], casts=True), strip(c['inner'][1], casts=True)
    op = c['opcode']
    if a.get('kind') != 'DeclRefExpr':
        a, b = b, a
        op = {'<': '>', '>': '<', '<=': '>=', '>=': '<='}[op]
    if a.get('kind') != 'DeclRefExpr':
        return env
    k = evaluate(b, env)
    if k.lo != k.hi:
        return env
    if not truth:
        op = {'<': '>=', '>=': '<', '>': '<=', '<=': '>'}[op]
    bound = {'<': Iv(-INF, k.lo, True, True), '<=': Iv(-INF, k.lo, True, False), '>': Iv(k.lo, INF, True, True), '>=': Iv(k.lo, INF, False, True)}[op]
    nm = a['referencedDecl']['name']
    m = meet(env.get(nm, TOP), bound)
    if m is None:
        return None
    out = dict(env)
    out[nm] = m
    return out


_cond = None


def evaluate_cond(e, env):
    """ConditionalOperator with its condition used to narrow both arms"""
    t, f = refine(env, e['inner'][0], True), refine(env, e['inner'][0], False)
    vs = []
    if t is not None:
        vs.append(evaluate(e['inner'][1], t))
    if f is not None:
        vs.append(evaluate(e['inner'][2], f))
    out = vs[0]
    for v in vs[1:]:
        out = join(out, v)
    return out


def function_range(fn, param_ranges):
    """range of the value returned by a function made of scalar declarations, assignments, if/else and returns (loops
    forget what they assign). Conditions of the form `x OP constant` narrow x in the branches."""
    returns = []

    def run(stmts, env):
        for st in stmts:
            if env is None:
                return None
            k = st.get('kind')
            if k == 'DeclStmt':
                for d in st.get('inner', []):
                    if d.get('kind') == 'VarDecl' and 'init' in d:
                        init = [c for c in d.get('inner', []) if c.get('kind') not in ('FullComment',)]
                        if init:
                            env = dict(env)
                            env[d['name']] = evaluate(init[-1], env)
            elif k == 'CompoundStmt':
                env = run(st.get('inner', []), env)
            elif k == 'IfStmt':
                t, f = refine(env, st['inner'][0], True), refine(env, st['inner'][0], False)
                t = run([st['inner'][1]], t) if t is not None else None
                if len(st['inner']) > 2 and st['inner'][2].get('kind'):
                    f = run([st['inner'][2]], f) if f is not None else None
                if t is None:
                    env = f
                elif f is None:
                    env = t
                else:
                    env = {n_: join(t.get(n_, TOP), f.get(n_, TOP)) for n_ in set(t) | set(f)}
            elif k in ('WhileStmt', 'ForStmt', 'DoStmt'):
                env = dict(env)
                for x in cfront.walk(st):
                    if cfront.is_assign(x) or (x.get('kind') == 'UnaryOperator' and x.get('opcode') in ('++', '--')):
                        lv = strip(x['inner'][0])
                        if lv.get('kind') == 'DeclRefExpr':
                            env[lv['referencedDecl']['name']] = TOP
                    if x.get('kind') == 'ReturnStmt' and x.get('inner'):
                        returns.append(TOP)
            elif k == 'ReturnStmt':
                if st.get('inner'):
                    returns.append(evaluate(st['inner'][0], env))
                return None
            else:
                e = strip(st)
                if cfront.is_assign(e):
                    lv = strip(e['inner'][0])
                    if lv.get('kind') == 'DeclRefExpr':
                        nm = lv['referencedDecl']['name']
                        env = dict(env)
                        r = evaluate(e['inner'][1], env)
                        if e['opcode'] == '=':
                            env[nm] = r
                        elif e['opcode'] == '+=':
                            env[nm] = add(env.get(nm, TOP), r)
                        elif e['opcode'] == '-=':
                            env[nm] = add(env.get(nm, TOP), neg(r))
                        else:
                            env[nm] = TOP
        return env
    run(cfront.body(fn).get('inner', []), dict(param_ranges))
    if not returns:
        return TOP
    out = returns[0]
    for r in returns[1:]:
        out = join(out, r)
    return out
