"""C14 - particle bookkeeping stays consistent: static necessary conditions."""
import ast
import re

from ..core import AnalysisError, anchor
from .. import cfront, pyfront
from ..cfront import walk, strip, callee_name, call_args, render, line_of, is_assign, qtype
from . import capacity, c13

MSG_CALLS = {'reb_simulation_error', 'reb_simulation_warning', 'sprintf', 'snprintf', 'printf'}


def _writes_state(node, locals_):
    """Statements under node that write simulation state (anything reached through r-> / aliases), ignoring message calls."""
    out = []
    for e in walk(node):
        if is_assign(e) or (e.get('kind') == 'UnaryOperator' and e.get('opcode') in ('++', '--')):
            lv = render(e['inner'][0])
            root = lv.split('.')[0].split('[')[0].lstrip('(*')
            if root in locals_:
                continue
            out.append((line_of(e), lv))
        elif e.get('kind') == 'CallExpr':
            nm = callee_name(e)
            if nm and nm not in MSG_CALLS and nm.startswith('reb_'):
                out.append((line_of(e), 'call ' + nm))
            elif nm is None:
                out.append((line_of(e), 'call through ' + render(e['inner'][0])))
    return out


def rule_failure_atomicity(ctx):
    """R14.1: in the removal functions every refusal (a block that reports an error and returns 0) comes before the
    first statement that changes the simulation: an invalid request leaves the simulation unchanged."""
    tu = cfront.load_tu('particle.c')
    n = 0
    samples = []
    for fname in ('reb_simulation_remove_particle', 'reb_simulation_remove_particle_by_hash'):
        fn = tu.func(fname)
        params = {p['name'] for p in cfront.params(fn)}
        items = cfront.body(fn).get('inner', [])
        locals_ = set()
        for d in walk(cfront.body(fn)):
            if d.get('kind') == 'VarDecl' and '*' not in qtype(d):
                locals_.add(d['name'])
        locals_ |= {p for p in params if p != 'r'}
        first_mut = None
        for st in items:
            is_refusal = False
            if st.get('kind') == 'IfStmt':
                rets = [render(x['inner'][0]) for x in walk(st['inner'][1]) if x.get('kind') == 'ReturnStmt' and x.get('inner')]
                errs = [x for x in walk(st['inner'][1]) if x.get('kind') == 'CallExpr' and callee_name(x) == 'reb_simulation_error']
                if rets == ['0'] and errs:
                    is_refusal = True
                    n += 1
                    if first_mut is not None:
                        ctx.report('R14.1', '%s:refusal-after-mutation:%s' % (fname, render(st['inner'][0])[:40]), 'src/particle.c:%s %s' % (line_of(st), fname),
                                   'the refusal "if %s ... return 0" comes after the simulation was already changed at line %s (%s): an invalid request does not leave the simulation unchanged'
                                   % (render(st['inner'][0])[:60], first_mut[0], first_mut[1]))
                    samples.append('src/particle.c:%s refusal if %s' % (line_of(st), render(st['inner'][0])[:50]))
            if not is_refusal and first_mut is None:
                w = _writes_state(st, locals_)
                w = [x for x in w if not x[1].startswith('call reb_simulation_particle_by_hash') and not x[1].startswith('call reb_simulation_particle_index')]
                if w:
                    first_mut = w[0]
        # nested refusals inside mutating blocks (e.g. inside if(keep_sorted){...})
        for st in items:
            if st.get('kind') != 'IfStmt':
                continue
            rets0 = [x for x in walk(st['inner'][1]) if x.get('kind') == 'ReturnStmt' and x.get('inner') and render(x['inner'][0]) == '0']
            errs = [x for x in walk(st['inner'][1]) if x.get('kind') == 'CallExpr' and callee_name(x) == 'reb_simulation_error']
            direct = [render(x['inner'][0]) for x in (st['inner'][1].get('inner', []) if st['inner'][1].get('kind') == 'CompoundStmt' else []) if x.get('kind') == 'ReturnStmt' and x.get('inner')]
            if rets0 and errs and direct != ['0']:
                # a return 0 nested deeper than the top of this block: anything written in the block before it?
                w = _writes_state(st['inner'][1], locals_)
                early = [x for x in w if x[0] < line_of(rets0[0])]
                if early:
                    n += 1
                    ctx.report('R14.1', '%s:nested-refusal' % fname, 'src/particle.c:%s %s' % (line_of(rets0[0]), fname),
                               'this block changes the simulation (line %s: %s) and then refuses the request with return 0' % early[0])
    # the index range check dominates every use of index as a subscript
    fn = tu.func('reb_simulation_remove_particle')
    items = cfront.body(fn).get('inner', [])
    chk_line = None
    from . import pairdomain as _D
    idx_param = [p_['name'] for p_ in cfront.params(fn) if 'int' in qtype(p_) and '*' not in qtype(p_)][0]
    for st in items:
        if st.get('kind') != 'IfStmt':
            continue
        rets = [render(x['inner'][0]) for x in walk(st['inner'][1]) if x.get('kind') == 'ReturnStmt' and x.get('inner')]
        if rets != ['0'] or not any(x.get('kind') == 'CallExpr' and callee_name(x) == 'reb_simulation_error' for x in walk(st['inner'][1])):
            continue
        if not any(x.get('kind') == 'DeclRefExpr' and x['referencedDecl'].get('name') == idx_param for x in walk(st['inner'][0])):
            continue
        # the refusal must hold exactly for the indices outside 0 .. N-1 (decided on the boundary values, whatever its spelling)
        try:
            val = {i_: bool(_D.ieval(st['inner'][0], {idx_param: i_, 'r.N': 3}, {})) for i_ in (-1, 0, 2, 3)}
        except _D.Unknown:
            continue
        if val == {-1: True, 0: False, 2: False, 3: True}:
            chk_line = line_of(st)
    n += 1
    if chk_line is None:
        ctx.report('R14.1', 'remove:rangecheck', 'src/particle.c reb_simulation_remove_particle', 'the index range check (index >= N || index < 0) is missing')
    else:
        for e in walk(cfront.body(fn)):
            if e.get('kind') == 'ArraySubscriptExpr' and re.search(r'\bindex\b', render(e['inner'][1])) and line_of(e) < chk_line:
                ctx.report('R14.1', 'remove:use-before-check', 'src/particle.c:%s reb_simulation_remove_particle' % line_of(e),
                           'index is used as a subscript (%s) before it is range checked at line %s' % (render(e)[:50], chk_line))
    ctx.covered('R14.1', 'removal paths: every refusal precedes the first state change; index range check precedes every subscript use', n, floor=4, samples=samples)


def rule_growth(ctx):
    tu = cfront.load_tu('particle.c')
    n = 0
    samples = []
    from .. import normal
    fn = normal.dealiased(tu.func('reb_simulation_add_local'))     # slot = &(r->particles[r->N]); *slot = pt  is the append
    grown = None
    count_locals = set()
    for st in cfront.body(fn).get('inner', []):
        if st.get('kind') == 'WhileStmt' and render(st['inner'][0]).replace(' ', '') == '(r.N_allocated<=r.N)':
            if any('realloc' in render(e['inner'][1]) for e in walk(st) if is_assign(e)):
                grown = line_of(st)
        s = strip(st)
        slot = None
        if is_assign(s):
            m_ = re.match(r'^r\.particles\[(\w+)\]$', render(s['inner'][0]).replace(' ', ''))
            if m_ and m_.group(1) in count_locals:
                slot = m_.group(1)          # const unsigned int index = r->N (++): the slot is still "the first unused one"
        if st.get('kind') == 'DeclStmt':
            for d_ in st.get('inner', []):
                if d_.get('kind') == 'VarDecl' and 'init' in d_:
                    ini_ = [c_ for c_ in d_.get('inner', []) if c_.get('kind') not in ('FullComment',)]
                    if ini_ and re.match(r'^\(?r\.N(\+\+)?\)?$', render(ini_[-1]).replace(' ', '')):
                        count_locals.add(d_['name'])
        if is_assign(s) and (render(s['inner'][0]) == 'r.particles[r.N]' or slot):
            n += 1
            if grown is None:
                ctx.report('R14.2', 'add:growth', 'src/particle.c:%s reb_simulation_add_local' % line_of(s), 'r->particles[r->N] is written before capacity for N+1 particles is ensured (while (N_allocated<=N) realloc)')
            samples.append('src/particle.c:%s particles[N] = pt after growth loop at line %s' % (line_of(s), grown))
    anchor(n == 1, 'reb_simulation_add_local appends with r->particles[r->N] = pt')
    # N is incremented after the write
    # lookup table: every entry written while the table is rebuilt lies below the capacity. The entries are addressed by a
    # counter that grows by at most one per particle (and by the remembered slot of the zero hash), so either the loop body
    # tests `counter >= capacity` and grows before the write, or the capacity is made >= r->N before the loop: by a
    # `while (capacity < N)` that enlarges it, or by an `if` that assigns a value that is at least N.
    from . import extents
    fn = tu.func('reb_update_particle_lookup_table')
    L = extents.lets(fn)
    mutated = {render(e['inner'][0]) for e in walk(cfront.body(fn)) if is_assign(e)} | {render(x['inner'][0]) for x in walk(cfront.body(fn)) if x.get('kind') == 'UnaryOperator' and x.get('opcode') in ('++', '--')}
    L = {k_: v_ for k_, v_ in L.items() if k_ not in mutated}      # only locals that keep their initial value are names for it
    R = lambda e: extents.canon(extents.resolve(render(e), L))
    CAP, BUF, NN = 'r.N_allocated_lookup', 'r.particle_lookup_table', 'r.N'

    def grows(st):
        return any(is_assign(e) and R(e['inner'][0]) == CAP for e in walk(st)) and any(e.get('kind') == 'CallExpr' and callee_name(e) == 'realloc' for e in walk(st))

    def cmp_parts(c):
        c = strip(c, casts=True)
        if c.get('kind') == 'BinaryOperator' and c.get('opcode') in ('<', '<=', '>', '>='):
            a, b, op = R(c['inner'][0]).replace('int', ''), R(c['inner'][1]).replace('int', ''), c['opcode']
            if b == CAP:
                a, b, op = b, a, {'<': '>', '>': '<', '<=': '>=', '>=': '<='}[op]
            if a == CAP:
                return op, b         # capacity OP b
        return None, None
    pre_ok = False
    for st in cfront.body(fn).get('inner', []):
        if st.get('kind') == 'ForStmt':
            break
        if st.get('kind') in ('WhileStmt', 'IfStmt') and grows(st):
            op, need = cmp_parts(st['inner'][0])
            if op in ('<',) and need == NN or op == '<=' and need in (NN,):
                if st.get('kind') == 'WhileStmt':
                    pre_ok = True
                else:
                    # an if establishes capacity >= N only if it assigns such a value
                    for e in walk(st['inner'][1]):
                        if is_assign(e) and e['opcode'] == '=' and R(e['inner'][0]) == CAP:
                            v = R(e['inner'][1]).replace('int', '')
                            if v == NN or re.match(r'^%s[+*]\d+$' % re.escape(NN), v) or re.match(r'^\d+[*]%s$' % re.escape(NN), v):
                                pre_ok = True
    for loop in walk(cfront.body(fn)):
        if loop.get('kind') != 'ForStmt':
            continue
        body_ = loop['inner'][-1]
        items = body_.get('inner', []) if body_.get('kind') == 'CompoundStmt' else [body_]
        counters = {render(x['inner'][0]) for x in walk(body_) if x.get('kind') == 'UnaryOperator' and x.get('opcode') == '++'}
        grown = set()
        for st in items:
            if st.get('kind') in ('IfStmt', 'WhileStmt') and grows(st):
                op, need = cmp_parts(st['inner'][0])
                if op == '<=' and need in counters:
                    grown.add(need)
                continue
            for e in walk(st):
                if is_assign(e) and strip(e['inner'][0]).get('kind') == 'MemberExpr':
                    base = strip(strip(e['inner'][0])['inner'][0], casts=True)
                    if base.get('kind') == 'ArraySubscriptExpr' and R(base['inner'][0]) == BUF:
                        n += 1
                        idx = render(base['inner'][1])
                        where = 'src/particle.c:%s reb_update_particle_lookup_table' % line_of(e)
                        slot_of_counter = idx in counters or any(is_assign(a_) and render(a_['inner'][0]) == idx and (render(a_['inner'][1]) in counters or render(a_['inner'][1]) == render(loop['inner'][0]['inner'][0]['name'] if False else a_['inner'][1])) for a_ in walk(body_))
                        if not (idx in counters or idx == 'zerohash' or slot_of_counter):
                            ctx.report('R14.2', 'lookup:index:' + idx, where, 'lookup table written at index %s (bounded entries are the entry counter and the remembered zero-hash slot)' % idx)
                        if not pre_ok and not (grown & counters):
                            ctx.report('R14.2', 'lookup:growth', where,
                                       'entry %s of the lookup table is written although neither a test of the entry counter against N_allocated_lookup precedes it in the loop body nor the capacity was made >= r->N before the loop (a single doubling under `if` does not reach N): with more hashed particles than the capacity the write and the sort run past the allocation' % idx)
    c13.rule_growth(ctx, 'R14.2c')
    ctx.covered('R14.2', 'appends: particle array and hash lookup table are grown before the write', n, floor=5, samples=samples)


def rule_lookup(ctx):
    tu = cfront.load_tu('particle.c')
    n = 0
    fn = tu.func('reb_search_lookup_table')
    # the pointer &r->particles[E] is formed only on paths where E < N holds (enclosing ifs and preceding early exits)
    from . import pathcond
    conds = pathcond.conditions(fn)
    found = False
    for x in walk(cfront.body(fn)):
        if x.get('kind') == 'ReturnStmt' and x.get('inner') and 'r.particles[' in render(x['inner'][0]):
            found = True
            n += 1
            m_ = re.search(r'r\.particles\[(.*)\]', render(x['inner'][0]).replace(' ', ''))
            E = m_.group(1) if m_ else '?'
            cs = [c.replace('(int)', '').replace('(', '').replace(')', '') for c in conds.get(id(x), [])]
            want = E.replace('(', '').replace(')', '')
            if not any(c == '%s<r.N' % want or c == 'r.N>%s' % want for c in cs):
                ctx.report('R14.3', 'lookup:bound', 'src/particle.c:%s reb_search_lookup_table' % line_of(x),
                           'a particle pointer is formed from a lookup entry under %s, not under index < N: stale entries beyond N are handed out' % cs)
    anchor(found, 'reb_search_lookup_table returns &r->particles[<entry>.index] under a bound test')
    fn = tu.func('reb_simulation_particle_by_hash')
    n += 1
    hparam = [p_['name'] for p_ in cfront.params(fn) if 'uint32_t' in qtype(p_) or 'unsigned' in qtype(p_)]
    anchor(hparam, 'hash parameter of reb_simulation_particle_by_hash')
    stale = miss = False
    for x in walk(cfront.body(fn)):
        if x.get('kind') == 'BinaryOperator' and x.get('opcode') in ('!=', '=='):
            a_, b_ = strip(x['inner'][0], casts=True), strip(x['inner'][1], casts=True)
            for u, v in ((a_, b_), (b_, a_)):
                if u.get('kind') == 'MemberExpr' and u.get('name') == 'hash' and v.get('kind') == 'DeclRefExpr' and v['referencedDecl'].get('name') == hparam[0]:
                    stale = True
                if '*' in qtype(u) and u.get('kind') == 'DeclRefExpr' and render(v).replace(' ', '') in ('0', '((void*)0)', 'NULL'):
                    miss = True
        if x.get('kind') == 'UnaryOperator' and x.get('opcode') == '!' and '*' in qtype(strip(x['inner'][0], casts=True)):
            miss = True
    if not stale:
        ctx.report('R14.3', 'lookup:staleness', 'src/particle.c reb_simulation_particle_by_hash', 'the particle found through the lookup table is not re-checked for carrying the requested hash (stale table)')
    if not miss:
        ctx.report('R14.3', 'lookup:miss', 'src/particle.c reb_simulation_particle_by_hash', 'a miss does not trigger a rebuild of the lookup table')
    if not any(x.get('kind') == 'CallExpr' and callee_name(x) == 'reb_update_particle_lookup_table' for x in walk(cfront.body(fn))):
        ctx.report('R14.3', 'lookup:rebuild', 'src/particle.c reb_simulation_particle_by_hash', 'the lookup table is never rebuilt')
    # must-pass-through: an answer is handed back without a rebuild only on the path that found a particle and saw that it
    # carries the requested hash; every other path (miss, stale entry) rebuilds the table first, whatever its bookkeeping says
    from .. import normal
    try:
        ps = pathcond.paths(fn)
    except ValueError as ex:
        raise AnalysisError('R14.3: reb_simulation_particle_by_hash is no longer loop-free (%s)' % ex)
    valid_txt, null_txt = set(), set()
    for x in walk(cfront.body(fn)):
        if x.get('kind') == 'BinaryOperator' and x.get('opcode') in ('!=', '=='):
            a_, b_ = strip(x['inner'][0], casts=True), strip(x['inner'][1], casts=True)
            for u, v in ((a_, b_), (b_, a_)):
                if u.get('kind') == 'MemberExpr' and u.get('name') == 'hash' and v.get('kind') == 'DeclRefExpr' and v['referencedDecl'].get('name') == hparam[0]:
                    valid_txt.add(pathcond._txt(x) if x['opcode'] == '==' else pathcond._txt(normal.negate(x)))
                if '*' in qtype(u) and u.get('kind') == 'DeclRefExpr' and render(v).replace(' ', '') in ('0', '((void*)0)', 'NULL'):
                    null_txt.add(pathcond._txt(x) if x['opcode'] == '==' else pathcond._txt(normal.negate(x)))
        if x.get('kind') == 'UnaryOperator' and x.get('opcode') == '!' and '*' in qtype(strip(x['inner'][0], casts=True)):
            null_txt.add(pathcond._txt(x))
    for pth in ps:
        n += 1
        conds = [e[1] for e in pth if e[0] == 'cond']
        rebuilt = any(e[0] == 'call' and e[1] == 'reb_update_particle_lookup_table' for e in pth)
        validated = any(c in valid_txt for c in conds) and not any(c in null_txt for c in conds)
        if not rebuilt and not validated:
            ctx.report('R14.3', 'lookup:path:' + '&'.join(conds)[:60], 'src/particle.c reb_simulation_particle_by_hash',
                       'on the path {%s} the function answers from the lookup table without rebuilding it although the entry was not seen to carry the requested hash: the table is a cache that goes stale when hashes are assigned or particles move, so an existing particle is reported as not found'
                       % ', '.join(conds))
    fn = tu.func('reb_simulation_remove_particle_by_hash')
    n += 1
    rej = False
    for st in walk(cfront.body(fn)):
        if st.get('kind') == 'IfStmt' and any(x.get('kind') == 'ReturnStmt' for x in walk(st['inner'][1])) and any(x.get('kind') == 'CallExpr' and callee_name(x) == 'reb_simulation_error' for x in walk(st['inner'][1])):
            rej = True
    if not rej:
        ctx.report('R14.3', 'remove_by_hash:miss', 'src/particle.c reb_simulation_remove_particle_by_hash', 'an unknown hash is not rejected')
    ctx.covered('R14.3', 'hash lookup: bound test before forming the pointer, staleness re-check, rebuild on miss, unknown hash rejected', n, floor=3)


MURMUR = {'c1': 0xcc9e2d51, 'c2': 0x1b873593, 'r1': 15, 'r2': 13, 'm': 5, 'n': 0xe6546b64}


def rule_hash(ctx):
    tu = cfront.load_tu('tools.c')
    fn = tu.func('reb_murmur3_32')
    n = 0
    vals = {}
    for d in walk(cfront.body(fn)):
        if d.get('kind') == 'VarDecl' and 'init' in d and d['name'] in MURMUR:
            for x in walk(d):
                if x.get('kind') == 'IntegerLiteral':
                    vals[d['name']] = int(x['value'])
    for k, v in MURMUR.items():
        n += 1
        if vals.get(k) != v:
            ctx.report('R14.4', 'hash:const:' + k, 'src/tools.c reb_murmur3_32', 'MurmurHash3 constant %s is %s, the published value is %#x: hashes stored in existing archives no longer match names' % (k, vals.get(k), v))
    lits = sorted({int(x['value']) for x in walk(cfront.body(fn)) if x.get('kind') == 'IntegerLiteral'})
    for need in (0x85ebca6b, 0xc2b2ae35, 16, 13):
        n += 1
        if need not in lits:
            ctx.report('R14.4', 'hash:final:%x' % need, 'src/tools.c reb_murmur3_32', 'finalisation constant %#x of MurmurHash3 is missing' % need)
    f2 = tu.func('reb_hash')
    seeds = [int(x['value']) for x in walk(cfront.body(f2)) if x.get('kind') == 'IntegerLiteral']
    n += 1
    if seeds != [1983]:
        ctx.report('R14.4', 'hash:seed', 'src/tools.c reb_hash', 'the hash seed is %s, not 1983 (persisted format)' % seeds)
    # Python obtains string hashes only from C
    db = pyfront.pydb()
    for rel in ('rebound/hash.py', 'rebound/units.py', 'rebound/particles.py', 'rebound/simulation.py', 'rebound/particle.py'):
        tree = db.files[rel]
        for node in ast.walk(tree):
            if isinstance(node, ast.Call) and pyfront._name(node.func) in ('crc32', 'md5', 'sha1') or \
                    (isinstance(node, ast.Call) and isinstance(node.func, ast.Name) and node.func.id == 'hash' and rel != 'rebound/hash.py' and False):
                ctx.report('R14.4', 'hash:python:%s' % rel, '%s:%d' % (rel, node.lineno), 'Python computes a hash by itself instead of delegating to reb_hash')
    n += 1
    hfn = [x for x in ast.walk(db.files['rebound/hash.py']) if isinstance(x, ast.FunctionDef) and x.name == 'hash']
    anchor(hfn, 'rebound/hash.py hash()')
    refs = [x.attr for x in ast.walk(hfn[0]) if isinstance(x, ast.Attribute) and pyfront._name(x.value) == 'clibrebound']
    if 'reb_hash' not in refs:
        ctx.report('R14.4', 'hash:python:delegate', 'rebound/hash.py hash', 'string keys are not hashed by clibrebound.reb_hash')
    ctx.covered('R14.4', 'MurmurHash3-x86-32 constants, rotations, finaliser and seed 1983; Python delegates string hashing to C', n, floor=12)


def rule_active_count(ctx):
    """R14.5: every "one fewer active particle" adjustment is guarded by  index < active count  (strict)."""
    tu = cfront.load_tu('particle.c')
    fn = tu.func('reb_simulation_remove_particle')
    n = 0
    samples = []
    for ifs in walk(cfront.body(fn)):
        if ifs.get('kind') != 'IfStmt':
            continue
        decs = [render(e['inner'][0]) for e in walk(ifs['inner'][1]) if e.get('kind') == 'UnaryOperator' and e.get('opcode') == '--' and 'active' in render(e['inner'][0]).lower()]
        thenb = ifs['inner'][1]
        direct = [x for x in (thenb.get('inner', []) if thenb.get('kind') == 'CompoundStmt' else [thenb])]
        if len(decs) == 1 and len(direct) == 1:
            n += 1
            c = render(ifs['inner'][0]).replace(' ', '').replace('(int)', '')
            m = re.match(r'^\((\w+)<([\w.]+)\)$', c)
            where = 'src/particle.c:%s reb_simulation_remove_particle' % line_of(ifs)
            if not m or m.group(2) != decs[0]:
                ctx.report('R14.5', 'active:%s' % decs[0], where, '%s is decremented under %s; the documented rule is: only when the removed index is below the active count (index < %s)' % (decs[0], c, decs[0]))
            samples.append('%s: if %s %s--' % (where, c, decs[0]))
    ctx.covered('R14.5', 'active-count adjustments on removal are guarded by index < active count', n, floor=3, samples=samples)


def rule_active_count_every_path(ctx):
    """R14.9: on every path of reb_simulation_remove_particle that takes a particle out of the array (r->N--), the active
    count is adjusted in the same statement list (`if (index < r->N_active) r->N_active--`). A path that only moves the last
    particle into the hole leaves N_active too large: a test particle is promoted into an active slot and, after further
    removals, N_active exceeds N and the force loops run over a slot beyond the particles."""
    tu = cfront.load_tu('particle.c')
    fn = tu.func('reb_simulation_remove_particle')
    n = 0
    samples = []

    def lists(node):
        if node.get('kind') == 'CompoundStmt':
            yield node
        for c in node.get('inner', []) or []:
            if isinstance(c, dict):
                yield from lists(c)
    for comp in lists(cfront.body(fn)):
        items = comp.get('inner', [])
        dec_N = [st for st in items if strip(st).get('kind') == 'UnaryOperator' and strip(st).get('opcode') == '--' and render(strip(st)['inner'][0]).replace(' ', '') == 'r.N']
        if not dec_N:
            continue
        n += 1
        adj = False
        for st in items:
            if st.get('kind') == 'IfStmt' and 'N_active' in render(st['inner'][0]):
                if any(e.get('kind') == 'UnaryOperator' and e.get('opcode') == '--' and render(e['inner'][0]).replace(' ', '') == 'r.N_active' for e in walk(st['inner'][1])):
                    adj = True
        where = 'src/particle.c:%s reb_simulation_remove_particle' % line_of(dec_N[0])
        moved = [render(strip(st)) for st in items if is_assign(strip(st)) and 'particles[index]' in render(strip(st)['inner'][0]).replace(' ', '')]
        kind = 'unsorted' if any('particles[r.N]' in m_.replace(' ', '') for m_ in moved) else 'sorted'
        if not adj:
            ctx.report('R14.9', 'remove:%s:N_active' % kind, where,
                       'this removal path (%s) decrements r->N but never adjusts r->N_active: removing an active particle leaves the active count too large (a test particle is promoted into the hole, later N_active > N)' % kind)
        else:
            samples.append('%s: %s path adjusts N_active' % (where, kind))
    anchor(n >= 2, 'removal paths decrementing r->N in reb_simulation_remove_particle')
    ctx.covered('R14.9', 'every removal path that shrinks the particle array adjusts the active count', n, floor=2, samples=samples)


def rule_python_none(ctx):
    """R14.6: optional selector arguments (default None) that may legitimately be 0 are tested with `is (not) None`,
    never by truthiness."""
    db = pyfront.pydb()
    n = 0
    sites = [('rebound/simulation.py', 'Simulation', 'remove'), ('rebound/simulation.py', 'Simulation', 'add'), ('rebound/particles.py', 'Particles', '__getitem__')]
    for rel, cls, meth in sites:
        c = db.classes.get(cls)
        anchor(c is not None and meth in c.defs, '%s.%s' % (cls, meth))
        fn = c.defs[meth]
        defaults = {}
        args = fn.args.args
        for a, d in zip(args[len(args) - len(fn.args.defaults):], fn.args.defaults):
            if isinstance(d, ast.Constant) and d.value is None:
                defaults[a.arg] = True
        for node in ast.walk(fn):
            tests = []
            if isinstance(node, (ast.If, ast.While, ast.IfExp)):
                tests.append(node.test)
            for t in tests:
                for x in ast.walk(t):
                    pass
                cands = [t] if isinstance(t, ast.Name) else []
                if isinstance(t, ast.UnaryOp) and isinstance(t.op, ast.Not) and isinstance(t.operand, ast.Name):
                    cands.append(t.operand)
                if isinstance(t, ast.BoolOp):
                    cands += [v for v in t.values if isinstance(v, ast.Name)]
                for cnd in cands:
                    if cnd.id in defaults and cnd.id in ('hash', 'index', 'key'):
                        ctx.report('R14.6', '%s.%s:%s' % (cls, meth, cnd.id), '%s:%d %s.%s' % (rel, node.lineno, cls, meth),
                                   'optional argument %s is tested by truthiness: the legitimate value 0 (hash 0, index 0) is treated as "not given" and the request is silently ignored' % cnd.id)
            if isinstance(node, ast.Compare) and isinstance(node.left, ast.Name) and node.left.id in defaults:
                n += 1
    # remove() dispatches every accepted hash type to the C removal function
    fn = db.classes['Simulation'].defs['remove']
    calls = [x.func.attr for x in ast.walk(fn) if isinstance(x, ast.Call) and isinstance(x.func, ast.Attribute) and pyfront._name(x.func.value) == 'clibrebound']
    n += 1
    if 'reb_simulation_remove_particle' not in calls or 'reb_simulation_remove_particle_by_hash' not in calls:
        ctx.report('R14.6', 'Simulation.remove:dispatch', 'rebound/simulation.py Simulation.remove', 'remove() no longer reaches both C removal functions (%s)' % sorted(set(calls)))
    last = fn.body[-1]
    if not (isinstance(last, ast.Expr) and 'process_messages' in ast.unparse(last)):
        ctx.report('R14.6', 'Simulation.remove:messages', 'rebound/simulation.py Simulation.remove', 'errors reported by C are not turned into exceptions (process_messages) after a removal')
    ctx.covered('R14.6', 'Python selectors: None-tests of optional index/hash arguments; both C removal paths reached; messages processed', n, floor=3)


def rule_sort_order(ctx):
    """R14.7: the lookup table is sorted with qsort and searched by bisection with unsigned < and >; the comparator must be
    the same total order. A comparator that returns a difference of the keys converted to int (a - b) is not: the
    difference of two 32-bit unsigned hashes wraps, so the table comes out in an order the bisection cannot search."""
    tus = cfront.load_tus()
    n = 0
    samples = []
    for c, tu in sorted(tus.items()):
        for fname, fn in tu.funcs.items():
            if cfront.basename(fn.get('_locfile') or fn.get('_file')) != c:
                continue
            for e in walk(cfront.body(fn)):
                if e.get('kind') != 'CallExpr' or callee_name(e) not in ('qsort', 'bsearch'):
                    continue
                cmp_arg = strip(call_args(e)[-1], casts=True)
                anchor(cmp_arg.get('kind') == 'DeclRefExpr', 'comparator of %s in %s is a named function' % (callee_name(e), fname))
                cname = cmp_arg['referencedDecl']['name']
                cfn = tu.funcs.get(cname)
                anchor(cfn is not None, 'comparator %s defined in %s' % (cname, c))
                rets = [x for x in walk(cfront.body(cfn)) if x.get('kind') == 'ReturnStmt' and x.get('inner')]
                anchor(rets, 'comparator %s returns a value' % cname)
                for rt in rets:
                    n += 1
                    top = strip(rt['inner'][0], casts=True)
                    bad = None
                    for x in walk(rt['inner'][0]):
                        if x.get('kind') == 'BinaryOperator' and x.get('opcode') == '-':
                            for side in x['inner']:
                                sd = strip(side, casts=True)
                                if sd.get('kind') == 'BinaryOperator' and sd.get('opcode') in ('<', '>', '<=', '>='):
                                    continue        # (a>b)-(a<b): operands are 0/1
                                ty = qtype(sd)
                                if sd.get('kind') in ('IntegerLiteral',):
                                    continue
                                bad = (render(x), ty)
                    where = 'src/%s:%s %s' % (c, line_of(rt), cname)
                    if bad:
                        ctx.report('R14.7', '%s:difference' % cname, where,
                                   'sort comparator returns the difference %s of keys of type %s converted to int: it wraps for keys more than INT_MAX apart, so the sorted order is not the unsigned order the bisection in reb_search_lookup_table assumes'
                                   % (bad[0], bad[1]))
                    else:
                        samples.append('%s returns %s' % (where, render(top)[:80]))
    # the search compares the same key with unsigned < and >
    tu = cfront.load_tu('particle.c')
    fn = tu.func('reb_search_lookup_table')
    # the key of the bisection: the local initialised from a `.hash` member of the table
    keys = []
    for x in walk(cfront.body(fn)):
        if x.get('kind') == 'VarDecl' and 'init' in x:
            ini = [c_ for c_ in x.get('inner', []) if c_.get('kind') not in ('FullComment',)]
            if ini and strip(ini[-1], casts=True).get('kind') == 'MemberExpr' and strip(ini[-1], casts=True).get('name') == 'hash':
                keys.append(x)
    anchor(len(keys) == 1, 'bisection key (a local read from table[middle].hash) in reb_search_lookup_table')
    kname = keys[0]['name']
    cmps = [x for x in walk(cfront.body(fn)) if x.get('kind') == 'BinaryOperator' and x.get('opcode') in ('<', '>')
            and any(y.get('kind') == 'DeclRefExpr' and y['referencedDecl'].get('name') == kname for y in walk(x))]
    n += len(cmps)
    anchor(len(cmps) >= 2, 'bisection in reb_search_lookup_table compares its key with < and >')
    if 'uint32_t' not in qtype(keys[0]) and 'unsigned' not in qtype(keys[0]):
        ctx.report('R14.7', 'search:type', 'src/particle.c:%s reb_search_lookup_table' % line_of(keys[0]), 'the bisection key is declared %s: the comparator sorts unsigned 32-bit hashes' % qtype(keys[0]))
    ctx.covered('R14.7', 'qsort/bsearch comparators are overflow-free three-way comparisons; the bisection uses unsigned < and > on the same key', n, floor=3, samples=samples)


def rule_python_index(ctx):
    """R14.11: Particles.__getitem__/__setitem__ hand an integer key to a ctypes pointer, which performs no bound check of its
    own (a negative index reads in front of the array). The integer branch only compares the key with 0 and N and shifts it
    by N once, so it is decided on the keys -2N-2 .. 2N+1 for N = 0, 1, 3: the pointer is indexed only with 0 <= key < N,
    every other key raises."""
    from . import pyeval
    db = pyfront.pydb()
    cls = db.classes.get('Particles')
    anchor(cls is not None and '__getitem__' in cls.defs, 'Particles.__getitem__')
    n = 0
    bad = {}
    # the integer branch may be a method of its own that __getitem__ hands the key to (return self._by_index(key))
    work = [('__getitem__', cls.defs['__getitem__'], 'key')]
    for x in ast.walk(cls.defs['__getitem__']):
        if isinstance(x, ast.Return) and isinstance(x.value, ast.Call) and isinstance(x.value.func, ast.Attribute) \
                and pyfront._name(x.value.func.value) == 'self' and x.value.func.attr in cls.defs \
                and len(x.value.args) == 1 and isinstance(x.value.args[0], ast.Name) and x.value.args[0].id == 'key':
            h = cls.defs[x.value.func.attr]
            ps = [a.arg for a in h.args.args if a.arg != 'self']
            if len(ps) == 1:
                work.append((x.value.func.attr, h, ps[0]))
    for meth, fn, pname in work:
        for N in (0, 1, 3):
            for key in range(-2 * N - 2, 2 * N + 2):
                dom = {pname: [key], 'self.sim.N': [N]}
                for env, r in pyeval.paths(fn, dom):
                    # only the integer branch: a path that took an isinstance(key, str/slice/...) test as true is another key type
                    for ln, what, kw, snap in r.events:
                        if what != 'return' or kw.get('value') is None:
                            continue
                        v = kw['value']
                        if isinstance(v, ast.Subscript) and isinstance(v.value, ast.Attribute) and v.value.attr.startswith('_ps'):
                            n += 1
                            undecided = [f_ for f_ in r.forks if not (f_[1].startswith('isinstance(') or 'version_info' in f_[1] or f_[1] in ('PY3', 'not PY3'))]
                            if undecided:
                                raise AnalysisError('R14.11: the test `%s` (rebound/particles.py:%d) on the way to the pointer access cannot be evaluated on concrete keys' % (undecided[0][1], undecided[0][0]))
                            idx = snap.get(ast.unparse(v.slice), pyeval.UNK)
                            if idx is pyeval.UNK or not (0 <= idx < N):
                                bad.setdefault((meth, ln), []).append('N=%d key=%d -> %s[%s]' % (N, key, ast.unparse(v.value), idx))
    for (meth, ln), why in sorted(bad.items()):
        ctx.report('R14.11', 'Particles.%s:range' % meth, 'rebound/particles.py:%d Particles.%s' % (ln, meth),
                   'the particle pointer is indexed outside 0..N-1 (%s; %d cases): an out-of-range index does not fail, it reads (and through the returned object writes) another particle or memory in front of the array' % (why[0], len(why)))
    ctx.covered('R14.11', 'Particles.__getitem__ integer branch evaluated for N in {0,1,3} and keys -2N-2..2N+1: pointer indexed only inside 0..N-1', n, floor=4)


def rule_bulk_accessors(ctx):
    """R14.12: reb_simulation_get_serialized_particle_data and ..._set_... are mirror images: every assignment `out[i].. =
    particles[i].member` of the getter occurs in the setter with its two sides exchanged, and nothing else is assigned.
    A getter line left in the setter assigns nothing to the particles (bulk hash assignment is lost, later look-ups by
    the new hashes fail) and overwrites the caller's array."""
    tu = cfront.load_tu('tools.c')
    pairs = {}
    for fname in ('reb_simulation_get_serialized_particle_data', 'reb_simulation_set_serialized_particle_data'):
        fn = tu.func(fname)
        from . import extents
        L = extents.lets(fn)
        got = set()
        for e in walk(cfront.body(fn)):
            if is_assign(e) and e['opcode'] == '=' and strip(e['inner'][0]).get('kind') in ('ArraySubscriptExpr', 'MemberExpr'):
                got.add((extents.canon(extents.resolve(render(e['inner'][0]), L)), extents.canon(extents.resolve(render(e['inner'][1]), L)), line_of(e)))
        pairs[fname] = got
    g = {(a, b) for a, b, _ in pairs['reb_simulation_get_serialized_particle_data']}
    st_ = {(a, b) for a, b, _ in pairs['reb_simulation_set_serialized_particle_data']}
    anchor(len(g) >= 10, 'assignments of reb_simulation_get_serialized_particle_data')
    n = len(g)
    mirror = {(b, a) for a, b in g}
    for a, b, ln in sorted(pairs['reb_simulation_set_serialized_particle_data']):
        if (a, b) not in mirror:
            ctx.report('R14.12', 'set_serialized:%s' % a[:30], 'src/tools.c:%s reb_simulation_set_serialized_particle_data' % ln,
                       'the setter assigns %s = %s, which is not the reverse of any assignment of the getter%s' % (a, b, ' - it is the getter\'s own line: the particles are not changed and the caller\'s array is overwritten' if (a, b) in g else ''))
    for a, b in sorted(mirror - st_):
        ctx.report('R14.12', 'set_serialized:missing:%s' % a[:30], 'src/tools.c reb_simulation_set_serialized_particle_data', 'the getter exports %s but the setter never assigns %s = %s' % (a, a, b))
    ctx.covered('R14.12', 'bulk particle accessors: the setter is the getter with both sides of every assignment exchanged', n, floor=10)


def rule_unsorted_removal_moves(ctx, rule='R14.14'):
    """R14.14: removing particle `index` without keeping the order moves exactly one particle: the last one into the hole
    (r->N--; particles[index] = particles[r->N]). Everything that re-indexes after a removal relies on that rule - the
    collision search renames its pending pairs "old last index -> index", the lookup table is rebuilt from it, MERCURIUS /
    TRACE shift their maps. In the statement list of the unsorted path the whole-particle stores into r->particles are
    therefore exactly {particles[index] = particles[r->N]}, and `index` keeps its value."""
    tu = cfront.load_tu('particle.c')
    fn = tu.func('reb_simulation_remove_particle')
    n = 0

    def lists(node):
        if node.get('kind') == 'CompoundStmt':
            yield node
        for c in node.get('inner', []) or []:
            if isinstance(c, dict):
                yield from lists(c)
    for comp in lists(cfront.body(fn)):
        items = comp.get('inner', [])
        direct = [strip(st) for st in items if is_assign(strip(st)) and re.match(r'^r\.particles\[index\]$', render(strip(st)['inner'][0]).replace(' ', ''))
                  and re.match(r'^r\.particles\[r\.N\]$', render(strip(st)['inner'][1]).replace(' ', ''))]
        if not direct:
            continue
        n += 1
        stores = [e for e in walk(comp) if is_assign(e) and e['opcode'] == '=' and re.match(r'^r\.particles\[[^\]]*\]$', render(e['inner'][0]).replace(' ', ''))]
        extra = [e for e in stores if e not in direct]
        for e in extra:
            ctx.report(rule, 'remove:unsorted:extra-move', 'src/particle.c:%s reb_simulation_remove_particle' % line_of(e),
                       'the unsorted removal also stores %s: more than the last particle changes its index, but the re-indexing after a removal (pending collisions, lookup table, encounter maps) renames only "last -> index" - later work is done on the wrong particles' % render(e))
        for e in walk(comp):
            if is_assign(e) and render(e['inner'][0]).replace(' ', '') == 'index':
                ctx.report(rule, 'remove:unsorted:index', 'src/particle.c:%s reb_simulation_remove_particle' % line_of(e),
                           'the index of the hole is reassigned (%s) before the last particle is moved into it: the particle ends up in another slot than the one callers re-index to' % render(e))
    anchor(n >= 1, 'unsorted removal path (particles[index] = particles[r->N]) in reb_simulation_remove_particle')
    ctx.covered(rule, 'unsorted removal moves exactly the last particle into the hole', n, floor=1)


def rule_add_refusals(ctx, rule='R14.16'):
    """R14.16: reb_simulation_add_local can refuse a particle (outside the box, no box configured for a tree code): it reports
    an error and returns. A refusal has to come before the particle is counted - once r->N has been incremented the particle
    is part of the simulation (found by index and hash, shifting every later index) although the tree never saw it. No error
    exit follows the increment of r->N."""
    tu = cfront.load_tu('particle.c')
    fn = tu.func('reb_simulation_add_local')
    incs = [line_of(e) for e in walk(cfront.body(fn)) if (e.get('kind') == 'UnaryOperator' and e.get('opcode') in ('++', '++post') and render(e['inner'][0]).replace(' ', '').strip('()') == 'r.N')
            or (is_assign(e) and render(e['inner'][0]).replace(' ', '') == 'r.N')]
    anchor(incs, 'reb_simulation_add_local increments r->N')
    first = min(incs)
    n = 0
    for comp in walk(cfront.body(fn)):
        if comp.get('kind') != 'CompoundStmt':
            continue
        items = comp.get('inner', [])
        for i, st in enumerate(items):
            s0 = strip(st)
            if s0.get('kind') == 'CallExpr' and callee_name(s0) == 'reb_simulation_error' and any(x.get('kind') == 'ReturnStmt' for x in items[i + 1:i + 2]):
                n += 1
                if line_of(s0) > first:
                    ctx.report(rule, 'add:refusal-after-count', 'src/particle.c:%s reb_simulation_add_local' % line_of(s0),
                               'this refusal (error and return) comes after r->N was incremented at line %s: the refused particle stays counted - it is in the array and found by its hash, absent from the tree, and every later particle has its index shifted' % first)
    anchor(n >= 2, 'refusals (error + return) in reb_simulation_add_local')
    ctx.covered(rule, 'every refusal of reb_simulation_add_local precedes the increment of r->N', n, floor=2)


def run(ctx):
    from . import protocol
    protocol.rule_wrapper_forwards(ctx, 'R14.17')        # remove by hash honours keep_sorted
    rule_add_refusals(ctx)
    from . import edges
    edges.rule_hash_stores(ctx, 'R14.15')            # a particle keeps the hash it was given
    rule_unsorted_removal_moves(ctx)
    from . import c15
    c15.rule_leaf_occupancy(ctx)     # R15.13: a removed (flagged) particle stays reachable until the tree update drops it
    from . import pyrules
    pyrules.rule_selector_truthiness(ctx, 'R14.13', ('Particles', 'Simulation'))   # particle 0 and hash 0 are selectable
    pyrules.rule_wrapper_state(ctx, 'R18.10')      # the particle view is rebuilt from the C array on every access
    rule_bulk_accessors(ctx)
    rule_python_index(ctx)
    rule_active_count_every_path(ctx)
    rule_sort_order(ctx)
    capacity.rule_release_resets_capacity(ctx, 'R14.8')
    rule_failure_atomicity(ctx)
    rule_growth(ctx)
    rule_lookup(ctx)
    rule_hash(ctx)
    rule_active_count(ctx)
    rule_python_none(ctx)
    ctx.not_decided.append('arbitrary add/remove/hash histories against a list model; stale lookup tables after particular removal orders; Python container semantics beyond delegation')
