"""Root box of a particle vs the root cell the tree builds for it (R15.17).

`reb_get_rootbox_for_particle` maps a position to the index of a root box, and the branch of
`reb_tree_add_particle_to_cell` that creates a root cell computes the centre of that cell from the position again. Both are
straight-line integer/double arithmetic over the position, the box size, the root size and the root counts, so they are
evaluated here exactly (rationals; floor, casts and % with C semantics) on a small complete family of layouts and of
coordinates per axis: both faces of the box, every border between two root boxes, and interior points on either side of
each. For every point that the boundary code regards as inside the box (faces included, the comparisons there are strict)

  * the index is a valid root index,
  * the root cell created for the point is the cell of that index, and
  * that cell contains the point by the test the tree update applies (|x - centre| <= w/2),

otherwise the tree update finds the particle outside its leaf, re-inserts it into the same root cell and never terminates
(or, for a wrong but containing cell, two root trees cover the same region and searches see the particle in the wrong one).
"""
import math
from fractions import Fraction as F

from ..core import AnalysisError, anchor
from .. import cfront
from ..cfront import walk, render, strip, callee_name, call_args, qtype, line_of

INT_TYPES = ('int', 'unsigned int', 'long', 'unsigned long', 'size_t', 'const int', 'const unsigned int')


class Unknown(Exception):
    pass


class _Ret(Exception):
    def __init__(self, v):
        self.v = v


class Eval:
    def __init__(self, tus):
        self.funcs = {}
        for tu in tus:
            for name, fn in tu.funcs.items():
                self.funcs.setdefault(name, fn)
        self.depth = 0

    def ev(self, n, env):
        k = n.get('kind')
        if k in ('ImplicitCastExpr', 'ParenExpr', 'ConstantExpr'):
            return self.ev(n['inner'][0], env)
        if k == 'CStyleCastExpr':
            v = self.ev(n['inner'][0], env)
            return F(math.trunc(v)) if qtype(n) in INT_TYPES else v
        if k == 'IntegerLiteral':
            return F(int(n['value']))
        if k == 'FloatingLiteral':
            return F(n['value'])
        if k in ('DeclRefExpr', 'MemberExpr'):
            p = render(n).replace(' ', '')
            if p in env:
                return env[p]
            raise Unknown('value of ' + p)
        if k == 'UnaryOperator':
            op = n['opcode']
            if op in ('++', '--'):
                p = render(n['inner'][0]).replace(' ', '')
                old = self.ev(n['inner'][0], env)
                env[p] = old + (1 if op == '++' else -1)
                return old if n.get('isPostfix') else env[p]
            v = self.ev(n['inner'][0], env)
            if op == '-':
                return -v
            if op == '+':
                return v
            if op == '!':
                return F(int(not v))
            raise Unknown('unary ' + op)
        if k == 'ConditionalOperator':
            return self.ev(n['inner'][1], env) if self.ev(n['inner'][0], env) else self.ev(n['inner'][2], env)
        if k == 'CallExpr':
            f = callee_name(n)
            a = [self.ev(x, env) for x in call_args(n)]
            if f == 'floor':
                return F(math.floor(a[0]))
            if f == 'ceil':
                return F(math.ceil(a[0]))
            if f in ('round', 'lround'):
                return F(math.floor(abs(a[0]) + F(1, 2))) * (1 if a[0] >= 0 else -1)
            if f in ('rint', 'nearbyint', 'lrint'):
                return F(round(a[0]))
            if f == 'trunc':
                return F(math.trunc(a[0]))
            if f == 'fabs' or f == 'abs':
                return abs(a[0])
            if f in ('fmin', 'MIN'):
                return min(a)
            if f in ('fmax', 'MAX'):
                return max(a)
            if f == 'fmod':
                return a[0] - a[1] * math.trunc(a[0] / a[1])
            if f in self.funcs and self.depth < 4:
                fn = self.funcs[f]
                ps = [p for p in fn.get('inner', []) if p.get('kind') == 'ParmVarDecl']
                if len(ps) != len(a):
                    raise Unknown('call ' + f)
                e2 = {}
                for p, v in zip(ps, a):
                    e2[p['name']] = F(math.trunc(v)) if qtype(p) in INT_TYPES else v
                self.depth += 1
                try:
                    self.run(cfront.body(fn), e2)
                    raise Unknown('no return value from ' + f)
                except _Ret as r_:
                    return r_.v
                finally:
                    self.depth -= 1
            raise Unknown('call of ' + str(f))
        if k == 'BinaryOperator':
            op = n['opcode']
            if op == '&&':
                return F(int(bool(self.ev(n['inner'][0], env)) and bool(self.ev(n['inner'][1], env))))
            if op == '||':
                return F(int(bool(self.ev(n['inner'][0], env)) or bool(self.ev(n['inner'][1], env))))
            if op == '=':
                v = self.ev(n['inner'][1], env)
                if qtype(n['inner'][0]) in INT_TYPES:
                    v = F(math.trunc(v))
                env[render(n['inner'][0]).replace(' ', '')] = v
                return v
            if op == ',':
                self.ev(n['inner'][0], env)
                return self.ev(n['inner'][1], env)
            a, b = self.ev(n['inner'][0], env), self.ev(n['inner'][1], env)
            isint = qtype(n) in INT_TYPES
            if op == '+':
                return a + b
            if op == '-':
                return a - b
            if op == '*':
                return a * b
            if op == '/':
                if b == 0:
                    raise Unknown('division by zero')
                return F(math.trunc(a / b)) if isint else a / b
            if op == '%':
                if b == 0:
                    raise Unknown('modulo zero')
                return F(int(math.fmod(int(a), int(b))))          # C: the result has the sign of the dividend
            if op == '>>':
                return F(int(a) >> int(b))
            if op == '<<':
                return F(int(a) << int(b))
            if op == '&':
                return F(int(a) & int(b))
            if op == '|':
                return F(int(a) | int(b))
            if op in ('<', '>', '<=', '>=', '==', '!='):
                return F(int({'<': a < b, '>': a > b, '<=': a <= b, '>=': a >= b, '==': a == b, '!=': a != b}[op]))
            raise Unknown('binary ' + op)
        if k == 'CompoundAssignOperator':
            p = render(n['inner'][0]).replace(' ', '')
            a, b = self.ev(n['inner'][0], env), self.ev(n['inner'][1], env)
            op = n['opcode']
            if op == '+=':
                v = a + b
            elif op == '-=':
                v = a - b
            elif op == '*=':
                v = a * b
            elif op == '%=':
                v = F(int(math.fmod(int(a), int(b))))
            elif op == '/=':
                v = a / b
            else:
                raise Unknown('assignment ' + op)
            if qtype(n['inner'][0]) in INT_TYPES:
                v = F(math.trunc(v))
            env[p] = v
            return v
        raise Unknown('expression ' + str(k))

    def run(self, st, env, skip_unknown_decls=False):
        k = st.get('kind')
        if k == 'CompoundStmt':
            for s in st.get('inner', []):
                self.run(s, env, skip_unknown_decls)
        elif k == 'DeclStmt':
            for d in st['inner']:
                if d.get('kind') == 'VarDecl' and 'init' in d:
                    init = [c for c in d.get('inner', []) if c.get('kind') not in ('FullComment',)]
                    t = qtype(d)
                    if 'struct' in t or '*' in t:
                        # a struct copy names a member path (const struct reb_vec3d boxsize = r->boxsize): alias its members;
                        # other struct copies / pointers: their members are seeded by the caller
                        src = render(init[-1]).replace(' ', '').strip('()')
                        for key in [k_ for k_ in env if k_.startswith(src + '.')]:
                            env[d['name'] + key[len(src):]] = env[key]
                        continue
                    v = self.ev(init[-1], env)
                    if t in INT_TYPES:
                        v = F(math.trunc(v))
                    env[d['name']] = v
        elif k == 'IfStmt':
            if self.ev(st['inner'][0], env):
                self.run(st['inner'][1], env, skip_unknown_decls)
            elif len(st['inner']) > 2:
                self.run(st['inner'][2], env, skip_unknown_decls)
        elif k == 'ReturnStmt':
            raise _Ret(self.ev(st['inner'][0], env) if st.get('inner') else None)
        elif k == 'NullStmt':
            pass
        elif k in ('ForStmt', 'WhileStmt', 'DoStmt'):
            self.loop(st, env)
        else:
            self.ev(strip(st), env)

    def loop(self, st, env):
        k = st['kind']
        n = 0
        if k == 'ForStmt':
            init, cond, inc, body = st['inner'][0], st['inner'][2], st['inner'][3], st['inner'][4]
            if init:
                self.run(init, env) if init.get('kind') == 'DeclStmt' else self.ev(init, env)
            while cond is None or self.ev(cond, env):
                self.run(body, env)
                if inc:
                    self.ev(inc, env)
                n += 1
                if n > 64:
                    raise Unknown('loop does not terminate within 64 iterations')
        elif k == 'WhileStmt':
            cond, body = st['inner'][0], st['inner'][1]
            while self.ev(cond, env):
                self.run(body, env)
                n += 1
                if n > 64:
                    raise Unknown('loop does not terminate within 64 iterations')
        else:
            raise Unknown('do loop')


def _predecls(ev, body, target, env):
    """Run the declarations that precede `target` on the way down from the function body (locals such as
    `const double root_size = r->root_size;` hoisted out of the branch); declarations that cannot be evaluated are left out -
    a read of one of them later is reported as unknown."""
    def path(node):
        if node is target:
            return [node]
        for c in node.get('inner', []) if isinstance(node, dict) else []:
            if isinstance(c, dict):
                p_ = path(c)
                if p_:
                    return [node] + p_
        return None
    chain = path(body) or []
    for a, b in zip(chain, chain[1:]):
        if a.get('kind') != 'CompoundStmt':
            continue
        for st in a.get('inner', []):
            if st is b:
                break
            if st.get('kind') == 'DeclStmt':
                try:
                    ev.run(st, env)
                except Unknown:
                    pass


def _layouts():
    for nx, ny, nz in ((1, 1, 1), (2, 1, 1), (1, 2, 1), (1, 1, 2), (3, 2, 1), (2, 3, 4)):
        for rs in (F(1), F(5, 2)):
            yield nx, ny, nz, rs


def _points(n, rs):
    L = n * rs
    pts = [-L / 2, -L / 2 + rs / 3, L / 2 - rs / 3, L / 2]
    for b in range(1, n):
        pts += [-L / 2 + b * rs - rs / 7, -L / 2 + b * rs, -L / 2 + b * rs + rs / 7]
    return sorted(set(pts))


def rule_root_box_of_point(ctx, rule):
    tp = cfront.load_tu('particle.c')
    tt = cfront.load_tu('tree.c')
    fidx = tp.func('reb_get_rootbox_for_particle')
    fadd = tt.func('reb_tree_add_particle_to_cell')
    anchor(fidx is not None and fadd is not None, 'reb_get_rootbox_for_particle / reb_tree_add_particle_to_cell')
    ps = [p for p in fidx['inner'] if p.get('kind') == 'ParmVarDecl']
    sim = [p['name'] for p in ps if 'reb_simulation' in qtype(p)]
    par = [p['name'] for p in ps if 'reb_particle' in qtype(p) and '*' not in qtype(p)]
    anchor(len(sim) == 1 and len(par) == 1, 'parameters (simulation, particle by value) of reb_get_rootbox_for_particle')
    sim, par = sim[0], par[0]
    # the root-cell constructor: `if (parent == NULL) { node->w = root_size; ... node->x = ... }`
    aps = [p for p in fadd['inner'] if p.get('kind') == 'ParmVarDecl']
    asim = [p['name'] for p in aps if 'reb_simulation' in qtype(p)]
    cells = [p['name'] for p in aps if 'reb_treecell' in qtype(p)]
    anchor(len(asim) == 1 and len(cells) == 2, 'parameters (simulation, node, parent) of reb_tree_add_particle_to_cell')
    asim = asim[0]
    root = None
    for s in walk(cfront.body(fadd)):
        if s.get('kind') != 'IfStmt':
            continue
        c = render(s['inner'][0]).replace(' ', '')
        for cell in cells:
            if c in ('(%s==NULL)' % cell, '(%s==0)' % cell, '(%s==((void*)0))' % cell, '(!%s)' % cell):
                stores = [render(e['inner'][0]).replace(' ', '') for e in walk(s['inner'][1]) if e.get('kind') == 'BinaryOperator' and e.get('opcode') == '=']
                others = [x for x in cells if x != cell]
                if others and ('%s.x' % others[0]) in stores and ('%s.w' % others[0]) in stores:
                    root, node = s, others[0]
    anchor(root is not None, 'the branch of reb_tree_add_particle_to_cell that creates a root cell (parent == NULL, stores node->w and node->x)')
    # the by-value particle the constructor reads
    plocal = None
    enclosing = None
    for s in walk(cfront.body(fadd)):
        if s.get('kind') == 'CompoundStmt' and any(x is root for x in s.get('inner', [])):
            enclosing = s
    anchor(enclosing is not None, 'the block around the root-cell constructor')
    for s in enclosing['inner']:
        if s is root:
            break
        if s.get('kind') == 'DeclStmt':
            for d in s['inner']:
                if d.get('kind') == 'VarDecl' and 'reb_particle' in qtype(d) and '*' not in qtype(d):
                    plocal = d['name']
    reads = set()
    for e in walk(root['inner'][1]):
        if e.get('kind') == 'MemberExpr' and e.get('name') in ('x', 'y', 'z'):
            b = render(e).replace(' ', '')
            if not b.startswith(node + '.') and 'boxsize' not in b:
                reads.add(b.rsplit('.', 1)[0])
    anchor(len(reads) == 1, 'the position the root-cell constructor reads (found %s)' % sorted(reads))
    pos_prefix = reads.pop()
    if plocal is not None and pos_prefix != plocal:
        pass
    evp = Eval([tp])
    evt = Eval([tt, tp])
    n = 0
    bad = {}
    for nx, ny, nz, rs in _layouts():
        cnt = {'x': nx, 'y': ny, 'z': nz}
        for ax in 'xyz':
            for c in _points(cnt[ax], rs):
                pos = {a: -cnt[a] * rs / 2 + rs / 3 for a in 'xyz'}
                pos[ax] = c

                def base(s):
                    return {s + '.root_size': rs, s + '.N_root_x': F(nx), s + '.N_root_y': F(ny), s + '.N_root_z': F(nz), s + '.N_root': F(nx * ny * nz),
                            s + '.boxsize.x': nx * rs, s + '.boxsize.y': ny * rs, s + '.boxsize.z': nz * rs}
                env = base(sim)
                env.update({par + '.' + a: pos[a] for a in 'xyz'})
                env2 = base(asim)
                env2.update({pos_prefix + '.' + a: pos[a] for a in 'xyz'})
                try:
                    _predecls(evt, cfront.body(fadd), root, env2)
                    try:
                        evp.run(cfront.body(fidx), env)
                        raise Unknown('reb_get_rootbox_for_particle returns nothing')
                    except _Ret as r_:
                        idx = r_.v
                    evt.run(root['inner'][1], env2)
                    cx, cy, cz, w = (env2.get('%s.%s' % (node, m)) for m in ('x', 'y', 'z', 'w'))
                    if None in (cx, cy, cz, w) or idx is None:
                        raise Unknown('the constructor leaves the centre or width of the root cell unset')
                except Unknown as ex:
                    raise AnalysisError('%s: cannot evaluate the root box of a point exactly: %s' % (rule, ex))
                n += 1
                what = None
                face = ' (a point on the upper face of the box, which the boundary code keeps: its comparisons are strict)' if c == cnt[ax] * rs / 2 and cnt[ax] > 1 else ''
                if not (idx.denominator == 1 and 0 <= idx < nx * ny * nz):
                    what = 'the root index %s is outside 0..%d' % (idx, nx * ny * nz - 1)
                else:
                    i = int(idx) % nx
                    j = (int(idx) // nx) % ny
                    k = int(idx) // (nx * ny)
                    ci = (-nx * rs / 2 + rs * (F(1, 2) + i), -ny * rs / 2 + rs * (F(1, 2) + j), -nz * rs / 2 + rs * (F(1, 2) + k))
                    inside_idx = all(abs(pos[a] - ci[q]) <= rs / 2 for q, a in enumerate('xyz'))
                    inside_cell = abs(pos['x'] - cx) <= w / 2 and abs(pos['y'] - cy) <= w / 2 and abs(pos['z'] - cz) <= w / 2
                    if w != rs:
                        what = 'the root cell has width %s, not root_size' % w
                    elif not inside_idx:
                        what = 'root box %d (cell centre %s) does not contain the point' % (int(idx), tuple(float(v) for v in ci))
                    elif not inside_cell:
                        what = 'the root cell created for the point (centre %s) does not contain it' % ((float(cx), float(cy), float(cz)),)
                    elif (cx, cy, cz) != ci:
                        what = 'the root cell created for the point (centre %s) is not the cell of root box %d (centre %s)' % ((float(cx), float(cy), float(cz)), int(idx), tuple(float(v) for v in ci))
                if what:
                    kind = 'face' if face else 'interior'
                    bad.setdefault((ax if not face else '+', kind), (nx, ny, nz, rs, ax, c, what + face))
    for (axk, kind), (nx, ny, nz, rs, ax, c, what) in sorted(bad.items()):
        ctx.report(rule, 'rootbox:%s' % ('upper-face' if kind == 'face' else 'axis-' + axk),
                   'src/particle.c:%s reb_get_rootbox_for_particle / src/tree.c:%s reb_tree_add_particle_to_cell' % (line_of(fidx), line_of(root)),
                   'with %dx%dx%d root boxes of size %s, a particle at %s = %s: %s; the tree update finds it outside its leaf and re-inserts it into the same root cell without end' % (nx, ny, nz, rs, ax, c, what))
    ctx.covered(rule, 'root index and root cell of a point agree and contain it: exact evaluation over root layouts x {faces, root-box borders, interior points} per axis', n, floor=150,
                samples=['src/particle.c:%s reb_get_rootbox_for_particle and src/tree.c:%s root-cell constructor: %d (layout, point) pairs evaluated exactly' % (line_of(fidx), line_of(root), n)])
