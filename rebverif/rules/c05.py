"""C05 - a saved simulation restores bit-for-bit (static necessary conditions)."""
from . import serial, bytesacct


def run(ctx):
    from . import c08 as _c08b
    _c08b.rule_final_snapshot_order(ctx)     # R08.10: the snapshot written at the end of integrate() stores the step size the live simulation continues with
    from . import pyrules
    pyrules.rule_selector_truthiness(ctx, 'R06.11', ('Simulation', 'Simulationarchive'))   # snapshot 0 is restored as snapshot 0
    from . import pyrules
    pyrules.rule_undefined_names(ctx, 'R18.11')     # the file constructors can be called
    pyrules.rule_keyword_constructor(ctx, 'R05.13')  # Simulation(filename=...) reads the file
    serial.rule_zeroed_particle_arrays(ctx)     # R05.12: persisted particle arrays contain no bytes nobody computed
    from . import c06 as _c06
    _c06.rule_empty_delta(ctx)     # R06.10: a state equal to the first snapshot is still written
    from . import c19
    c19.rule_serving_is_readonly(ctx)     # R19.4: writing a snapshot leaves the simulation as it was
    serial.rule_inert_members(ctx)
    serial.rule_scratch_reset(ctx)
    serial.rule_scratch_conditions(ctx)
    from . import c06 as _c06
    _c06.rule_counter_update(ctx)          # R06.9
    from . import c09
    c09.rule_python_snapshot_pickup(ctx)   # R09.7/R09.8: a picked-up snapshot continues bit for bit only if the switch reaches the integrator in use
    c09.rule_exact_finish(ctx)             # R09.11
    from . import c06
    c06.rule_cadence(ctx)                  # R06.5: re-attaching the output to a restored simulation leaves the persisted cadence counters alone
    serial.rule_R05_1(ctx)
    serial.rule_R05_2(ctx)
    serial.rule_R05_3(ctx)
    bytesacct.rule_writer(ctx, 'R05.4', [('output.c', 'reb_simulation_save_to_stream')], floor=6)
    bytesacct.rule_reader(ctx, 'R05.5')
    serial.rule_size_switch(ctx, 'R05.8')
    serial.rule_tree_predicate(ctx, 'R05.7')   # the restored simulation rebuilds the tree iff a module needs it
    from . import c06, c17
    c17.rule_accumulation(ctx, 'R06.6')   # appended snapshots are deltas: a field counts as changed when any element differs
    c06.rule_reader(ctx)      # R06.3/4: the index of an archive is complete (satisfiable growth) and a snapshot is first + delta
    ctx.not_decided.append('that the persisted set is sufficient for bitwise continuation of every integrator; padding bytes; the continuation itself (runtime)')
