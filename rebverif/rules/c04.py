"""C04 - conservation of momentum, angular momentum and energy: static necessary conditions."""
import re

from ..core import AnalysisError, anchor
from .. import cfront
from ..cfront import walk, strip, render, line_of, is_assign, callee_name, call_args
from . import compose as C, c01, c02, c12, c13, ias15, x1, pairloops as P


def rule_com_balance(ctx):
    """R04.2: the centre of mass is carried separately by the WH-type integrators: over every operator sequence the net
    COM drift equals the net Kepler drift (1*dt for a step, 0 for correctors and kernel helpers)."""
    n = 0
    samples = []
    for kname, kv in C.whfast_kernels():
        for sname, safe, sync0, acts in c01.STATES:
            for corr in c01.CORRECTORS:
                for corr2 in (0, 1):
                    it, _ = C.run('whfast', {'r.ri_whfast.kernel': kv, 'r.ri_whfast.safe_mode': safe, 'r.ri_whfast.is_synchronized': sync0,
                                             'r.ri_whfast.corrector': corr, 'r.ri_whfast.corrector2': corr2}, acts)
                    t = C.totals('whfast', it.trace)
                    n += 1
                    if not C.approx_eq(t['com'], t['drift']):
                        ctx.report('R04.2', 'com:whfast:%s:%s:c%d:c2%d' % (kname, sname, corr, corr2), 'src/integrator_whfast.c',
                                   'net COM drift %s differs from net Kepler drift %s: the centre of mass does not move uniformly with the bodies' % (t['com'], t['drift']))
    for tname, tv in C.saba_types():
        for sname, safe, sync0, acts in c01.STATES:
            it, _ = C.run('saba', {'r.ri_saba.type': tv, 'r.ri_saba.safe_mode': safe, 'r.ri_saba.is_synchronized': sync0}, acts)
            t = C.totals('saba', it.trace)
            n += 1
            if not C.approx_eq(t['com'], t['drift']):
                ctx.report('R04.2', 'com:saba:%s:%s' % (tname, sname), 'src/integrator_saba.c', 'net COM drift %s differs from net Kepler drift %s' % (t['com'], t['drift']))
    for sname, safe, sync0, acts in c01.STATES:
        it, _ = C.run('mercurius', {'r.ri_mercurius.safe_mode': safe, 'r.ri_mercurius.is_synchronized': sync0}, acts)
        t = C.totals('mercurius', it.trace)
        n += 1
        if not (C.approx_eq(t['com'], t['drift']) and C.approx_eq(t['jump'], t['drift'])):
            ctx.report('R04.2', 'com:mercurius:%s' % sname, 'src/integrator_mercurius.c', 'net COM drift %s / jump %s differ from the Kepler drift %s' % (t['com'], t['jump'], t['drift']))
    # every call of the Kepler step in the step drivers is paired with a COM step of the same coefficient (sequence level)
    it, _ = C.run('whfast', {'r.ri_whfast.kernel': 0, 'r.ri_whfast.safe_mode': 1, 'r.ri_whfast.is_synchronized': 1})
    samples.append('whfast default: %s' % {k: str(v) for k, v in C.totals('whfast', it.trace).items()})
    ctx.covered('R04.2', 'operator sequences of WHFast (all kernels/correctors/states), SABA (18 types x 3 states) and MERCURIUS: net COM drift == net Kepler drift', n, floor=150, samples=samples)


def rule_diagnostics(ctx):
    import sympy as sp
    tu = cfront.load_tu('tools.c')
    n = 0
    samples = []
    # angular momentum: L.c += m (r x v)_c
    fn = tu.func('reb_simulation_angular_momentum')
    ups = {}
    for e in walk(cfront.body(fn)):
        if is_assign(e) and render(e['inner'][0]).startswith('L.'):
            ups[render(e['inner'][0])[2:]] = (e['opcode'], cfront.toks(e['inner'][1]), line_of(e))
    anchor(set(ups) == {'x', 'y', 'z'}, 'reb_simulation_angular_momentum accumulates L.x, L.y, L.z')
    cyc = {'x': ('y', 'z'), 'y': ('z', 'x'), 'z': ('x', 'y')}
    for c, (op, rhs, line) in ups.items():
        n += 1
        syms = {}
        e = x1.to_sympy(rhs, syms)
        g = lambda f: syms.get('pi.' + f)
        a, b = cyc[c]
        if any(g(f) is None for f in ('m', a, b, 'v' + a, 'v' + b)):
            ctx.report('R04.4', 'L:%s:terms' % c, 'src/tools.c:%s reb_simulation_angular_momentum' % line, 'L.%s does not use m, %s, %s, v%s, v%s' % (c, a, b, a, b))
            continue
        want = g('m') * (g(a) * g('v' + b) - g(b) * g('v' + a))
        if op != '+=' or sp.expand(e - want) != 0:
            ctx.report('R04.4', 'L:%s' % c, 'src/tools.c:%s reb_simulation_angular_momentum' % line, 'L.%s accumulates %s, not m*(%s*v%s - %s*v%s)' % (c, render(rhs)[:80], a, b, b, a))
    # energy
    fn = tu.func('reb_simulation_energy')
    kin = pot = None
    lets = {}
    for d in walk(cfront.body(fn)):
        if d.get('kind') == 'VarDecl' and 'init' in d:
            init = [c for c in d.get('inner', []) if c.get('kind') not in ('FullComment',)]
            if init:
                lets[d['name']] = cfront.toks(init[-1])
    for e in walk(cfront.body(fn)):
        if is_assign(e):
            lv = render(e['inner'][0])
            if lv == 'e_kin':
                kin = (e['opcode'], cfront.toks(e['inner'][1]), line_of(e))
            if lv == 'e_pot':
                pot = (e['opcode'], cfront.toks(e['inner'][1]), line_of(e))
    anchor(kin and pot, 'reb_simulation_energy accumulates e_kin and e_pot')
    n += 2
    syms = {}
    ek = x1.to_sympy(kin[1], syms)
    g = lambda f: syms.get(f)
    if any(g(f) is None for f in ('pi.m', 'pi.vx', 'pi.vy', 'pi.vz')) or kin[0] != '+=' or \
            sp.expand(ek - g('pi.m') * (g('pi.vx') ** 2 + g('pi.vy') ** 2 + g('pi.vz') ** 2) / 2) != 0:
        ctx.report('R04.4', 'E:kin', 'src/tools.c:%s reb_simulation_energy' % kin[2], 'kinetic energy term is %s, not 1/2 m (vx^2+vy^2+vz^2)' % render(kin[1])[:90])
    syms = {}
    only = {k: v for k, v in lets.items() if k in ('dx', 'dy', 'dz')}
    ep = P.to_expr(pot[1], only, syms)
    need = ['r.G', 'pi.m', 'pj.m', 'pi.x', 'pj.x', 'pi.y', 'pj.y', 'pi.z', 'pj.z']
    if any(syms.get(f) is None for f in need):
        ctx.report('R04.4', 'E:pot:terms', 'src/tools.c:%s reb_simulation_energy' % pot[2], 'pair energy term %s does not use G, both masses and the three coordinate differences' % render(pot[1])[:90])
    else:
        s_ = syms
        r2 = (s_['pi.x'] - s_['pj.x']) ** 2 + (s_['pi.y'] - s_['pj.y']) ** 2 + (s_['pi.z'] - s_['pj.z']) ** 2
        want = s_['r.G'] * s_['pi.m'] * s_['pj.m'] / sp.sqrt(r2)
        sign = -1 if pot[0] == '-=' else 1
        f = sp.Function('sqrt')
        ep2 = ep.replace(f, sp.sqrt)
        if sp.simplify(sign * ep2 + want) != 0:
            ctx.report('R04.4', 'E:pot', 'src/tools.c:%s reb_simulation_energy' % pot[2], 'pair energy term is e_pot %s %s, not - G m_i m_j / |r_i - r_j|' % (pot[0], render(pot[1])[:90]))
    rets = [render(x['inner'][0]).replace(' ', '') for x in walk(cfront.body(fn)) if x.get('kind') == 'ReturnStmt' and x.get('inner')]
    n += 1
    if rets != ['((e_kin+e_pot)+r.energy_offset)']:
        ctx.report('R04.4', 'E:total', 'src/tools.c reb_simulation_energy', 'the energy returned is %s, not e_kin + e_pot + energy_offset' % rets)
    samples.append('L.c = m (r x v)_c for c=x,y,z; E = sum 1/2 m v^2 - sum G m m / r + offset')
    ctx.covered('R04.4', 'diagnostics return the mathematically defined quantities (polynomial identities on the accumulated terms)', n, floor=6, samples=samples)


INTEGRATOR_FILES = ['integrator.c', 'integrator_bs.c', 'integrator_eos.c', 'integrator_ias15.c', 'integrator_janus.c', 'integrator_leapfrog.c',
                    'integrator_mercurius.c', 'integrator_saba.c', 'integrator_sei.c', 'integrator_trace.c', 'integrator_whfast.c', 'integrator_whfast512.c']


def rule_integrator_components(ctx):
    """R04.6: a step that treats one axis differently (a scale, a sign, a mass taken from another component) breaks
    linear and angular momentum conservation; every x/y/z statement triple of every integrator function is one formula."""
    stats, nfun = x1.run_files(ctx, 'R04.6', INTEGRATOR_FILES)
    ctx.covered('R04.6', 'x/y/z statement triples of every function of every integrator source file (drifts, kicks, jumps, integer conversions of JANUS, '
                'predictor/corrector of IAS15, encounter bookkeeping) are one formula under an axis permutation', stats['groups'], floor=180, samples=stats['samples'])


def _access_path(e):
    """r.ri_x.member.sub for a chain of MemberExprs that ends in a pointer to the simulation or to one of its integrator structs"""
    from . import c09
    e = strip(e, casts=True)
    parts = []
    while e.get('kind') == 'MemberExpr':
        base = strip(e['inner'][0], casts=True)
        bt = cfront.qtype(base).replace('const', '').replace('struct', '').replace('*', '').replace('restrict', '').strip()
        if bt == 'reb_simulation':
            return '.'.join(['r', e['name']] + parts[::-1])
        host = c09._sim_member_of(bt)
        if host and base.get('kind') != 'MemberExpr':
            return '.'.join(['r', host, e['name']] + parts[::-1])
        parts.append(e['name'])
        e = base
    return None


def rule_rollback(ctx, rule='R04.7'):
    """R04.7: an integrator that may reject an attempted step and redo it (TRACE: backup of the particles, attempt, test, copy
    back, second attempt) has to put back everything the attempt advanced. The attempt's read-modify-write updates of the
    integrator's own persistent struct (compound assignments, followed through the functions of the same file) are
    collected; each must be restored in the rejection block next to the particles. An absolute assignment is recomputed
    by the second attempt, an increment is applied twice."""
    n = 0
    samples = []
    for cfile, host in (('integrator_trace.c', 'ri_trace'),):
        tu = cfront.load_tu(cfile)
        for fname in sorted(tu.funcs):
            fn = tu.func(fname)
            body = cfront.body(fn)
            if body is None:
                continue
            # rejection blocks: an if-body that copies a backup over r->particles and then calls the attempt again
            for ifs in walk(body):
                if ifs.get('kind') != 'IfStmt':
                    continue
                blk = ifs['inner'][1]
                top = blk.get('inner', []) if blk.get('kind') == 'CompoundStmt' else [blk]
                rest = [st for st in top if any(x.get('kind') == 'CallExpr' and callee_name(x) == 'memcpy' and 'particles' in render(call_args(x)[0]) and 'backup' in render(call_args(x)[1]) for x in walk(st))]
                if not rest or any(x.get('kind') == 'IfStmt' and x is not ifs and any(y in rest for y in walk(x)) for x in walk(blk)):
                    continue
                redo = [callee_name(x) for st in top for x in walk(st) if x.get('kind') == 'CallExpr' and callee_name(x) in tu.funcs]
                if not redo:
                    continue
                attempt = redo[-1]
                n += 1
                restored = set()
                for st in top:
                    for x in walk(st):
                        if is_assign(x) and x['opcode'] == '=':
                            p_ = _access_path(x['inner'][0])
                            if p_:
                                restored.add(p_)
                        if x.get('kind') == 'CallExpr' and callee_name(x) == 'memcpy':
                            p_ = _access_path(call_args(x)[0])
                            if p_:
                                restored.add(p_)
                # read-modify-write updates of the integrator's struct reachable from the attempt
                seen, todo, rmw = set(), [attempt], {}
                while todo:
                    f_ = todo.pop()
                    if f_ in seen or f_ not in tu.funcs:
                        continue
                    seen.add(f_)
                    fb = cfront.body(tu.func(f_))
                    if fb is None:
                        continue
                    # counters that the same function first sets absolutely are recomputed, not accumulated
                    reset_at = {}
                    for x in walk(fb):
                        if is_assign(x) and x['opcode'] == '=':
                            p_ = _access_path(x['inner'][0])
                            if p_:
                                reset_at.setdefault(p_, line_of(x))
                    for x in walk(fb):
                        if x.get('kind') == 'CallExpr' and callee_name(x):
                            todo.append(callee_name(x))
                        lhs = None
                        if is_assign(x) and x['opcode'] in ('+=', '-=', '*=', '/='):
                            lhs = x['inner'][0]
                        elif x.get('kind') == 'UnaryOperator' and x.get('opcode') in ('++', '--'):
                            lhs = x['inner'][0]
                        if lhs is not None:
                            p_ = _access_path(lhs)
                            if p_ and p_.startswith('r.%s.' % host) and not (p_ in reset_at and reset_at[p_] <= line_of(x)):
                                rmw.setdefault(p_, 'src/%s:%s %s' % (cfile, line_of(x), f_))
                where = 'src/%s:%s %s' % (cfile, line_of(ifs), fname)
                for p_, w in sorted(rmw.items()):
                    n += 1
                    if not any(p_ == r_ or p_.startswith(r_ + '.') for r_ in restored):
                        ctx.report(rule, '%s:rollback:%s' % (fname, p_.split('.', 2)[2]), where,
                                   'the rejected attempt (%s) advances %s by an increment (%s), the rejection block restores only %s: the second attempt applies the increment again' % (attempt, p_, w, sorted(restored) or 'nothing'))
                samples.append('%s: attempt %s, incremented %s, restored %s' % (where, attempt, sorted(rmw), sorted(restored)))
    ctx.covered(rule, 'step rejection: incremented members of the integrator struct are restored before the second attempt', n, floor=2, samples=samples)


def run(ctx):
    from . import c13 as _c13
    _c13.rule_fixup_siblings(ctx)     # R13.2: pending collisions are re-indexed consistently after a merger (mass and momentum of later mergers)
    from . import c08 as _c08
    _c08.rule_direction(ctx)     # R08.8: encounter sub-stepping reaches the step boundary in both directions of time
    from . import edges
    edges.rule_cached_count_identity(ctx, 'R10.13')  # JANUS does not write a stale integer state over merged particles
    from . import c01 as _c01
    _c01.rule_central_body_sums(ctx)     # R01.10: momentum balance of the central body uses completed sums
    from . import c01
    c01.rule_force_terms_flag(ctx)     # R01.12: no integrator inherits another one's list of left-out force terms (energy error of order one)
    c02.rule_pair_domains(ctx)                 # R02.8: each pair enters the kick once (a double-counted star term breaks energy conservation)
    rule_rollback(ctx)
    rule_integrator_components(ctx)
    loops = c02.rule_pairs(ctx)                # R02.3 antisymmetry, R02.7 pair indices
    c02.rule_components(ctx)                   # R02.2 X1 on force loops
    c12.rule_x1(ctx)                           # R12.2 X1 on transforms and frame changes
    rule_com_balance(ctx)
    c01.rule_compositions(ctx)                 # R01.2: uniform COM motion needs every drift sequence to sum to dt
    from . import c09
    c09.rule_frames(ctx)                       # R09.6: invariants across synchronisation (MERCURIUS frames)
    c09.rule_keep_unsynchronized(ctx)   # R09.3/R09.9: the state handed back by a synchronise is the synchronised one
    c13.rule_merge(ctx)                        # R13.3 merge conserves mass, momentum, centre of mass
    rule_diagnostics(ctx)
    ias15.rule_kahan(ctx, 'R04.5')
    ias15.rule_closing_series(ctx, 'R01.5')
    from . import c03
    c03.rule_split_mass_agreement(ctx)         # R03.7: drift and kick of a splitting add up to the N-body Hamiltonian (energy error shrinks with dt)
    ctx.not_decided.append('conservation along trajectories (runtime numerics); energy error class of each integrator; hard-sphere collisions')
