"""Rules about the edges of the input space: thresholds, time direction, defaults, first/last index.

These are decided from the shape of the code, not by running it:

* threshold siblings      - comparisons of the same quantity with the same literal denote one partition of its values
                            (`pt >= 0` "is a leaf" / `pt < 0` "is not"); a site that draws the line one off (`pt > 0`)
                            disagrees with its siblings exactly on the edge value.
* time direction          - the simulation time may run backwards and may be negative: a stored time is compared with r->t
                            for identity, or through a sign factor on both sides; r->t is compared with the literal 0 for
                            identity only.
* prototype/definition    - C does not compare parameter names between a prototype and its definition; two parameters of the
                            same type exchanged in one of them exchange the meaning of the arguments of every caller.
* sentinel before use     - `if (m == SENTINEL) m = default;` is a read barrier: no read of m precedes it in the function.
* typed hash stores       - a particle hash is a 32 bit unsigned integer; a floating point value stored into it is truncated.
* index normalisation     - the prologue of the snapshot loader is evaluated on every index -n-1 .. n+1 for n = 1, 3.
* reached for N = 1       - frame shifts act on a single particle too.
"""
import re

from ..core import AnalysisError, anchor
from .. import cfront
from ..cfront import walk, strip, render, line_of, is_assign, callee_name, call_args, qtype


def _own_funcs():
    for cfile, tu in sorted(cfront.load_tus().items()):
        for fname, fn in sorted(tu.funcs.items()):
            if cfront.body(fn) is None or cfront.basename(fn.get('_locfile') or fn.get('_file')) != cfile:
                continue
            yield cfile, tu, fname, tu.func(fname)


# ------------------------------------------------------------------ threshold siblings
# (key, literal): which comparisons belong to the family, confirmed by reading; boundary 'at' = the partition {>= L} / {< L}
THRESHOLDS = [
    # quantity (regex on the rendered operand), literal, files, meaning
    (r'(^|\.)pt$', 0, ('tree.c', 'collision.c', 'gravity.c', 'communication_mpi.c'), 'pt >= 0: the cell is a leaf and pt is its particle; pt < 0: -(number of particles below)'),
    (r'(^|\.)type$|^type$', 0x100, ('integrator_saba.c',), 'type >= 0x100: SABA with a corrector (CM / CL families)'),
    (r'(^|\.)testparticle$', 0, None, 'testparticle >= 0: the variation is that of one test particle'),
]


def rule_threshold_siblings(ctx, rule, keys=None):
    n = 0
    samples = []
    for pat, lit, files, meaning in THRESHOLDS:
        if keys and not any(k in pat for k in keys):
            continue
        sites = []
        for cfile, tu, fname, fn in _own_funcs():
            if files and cfile not in files:
                continue
            for e in walk(cfront.body(fn)):
                if e.get('kind') != 'BinaryOperator' or e.get('opcode') not in ('<', '<=', '>', '>=', '==', '!='):
                    continue
                a, b = strip(e['inner'][0], casts=True), strip(e['inner'][1], casts=True)
                op = e['opcode']
                if a.get('kind') == 'IntegerLiteral' and b.get('kind') != 'IntegerLiteral':
                    a, b = b, a
                    op = {'<': '>', '>': '<', '<=': '>=', '>=': '<=', '==': '==', '!=': '!='}[op]
                if b.get('kind') != 'IntegerLiteral' or int(b['value'], 0) != lit:
                    continue
                if not re.search(pat, render(a).replace(' ', '')):
                    continue
                sites.append((cfile, fname, line_of(e), op, render(e)))
        # also the Python mirror (Variation.testparticle)
        if 'testparticle' in pat:
            import ast
            from .. import pyfront
            for rel, tree in sorted(pyfront.pydb().files.items()):
                for node in ast.walk(tree):
                    if isinstance(node, ast.Compare) and len(node.ops) == 1 and isinstance(node.comparators[0], ast.Constant) and node.comparators[0].value == lit \
                            and isinstance(node.left, ast.Attribute) and node.left.attr == 'testparticle':
                        op = {ast.Lt: '<', ast.LtE: '<=', ast.Gt: '>', ast.GtE: '>=', ast.Eq: '==', ast.NotEq: '!='}.get(type(node.ops[0]))
                        if op:
                            sites.append((rel, '', node.lineno, op, ast.unparse(node)))
        at = [s for s in sites if s[3] in ('>=', '<')]
        off = [s for s in sites if s[3] in ('>', '<=')]
        n += len(at) + len(off)
        if len(at) >= 2:
            for cfile, fname, line, op, txt in off:
                ctx.report(rule, '%s:%s:threshold' % (fname or cfile, pat.strip('^$()|\\.')[:14]), '%s:%s %s' % (cfile if '/' in cfile else 'src/' + cfile, line, fname),
                           'this site tests %s while %d other sites draw the line at %s %d (%s): the value %d itself is classified differently here' % (txt, len(at), '>=', lit, meaning, lit))
        if at:
            samples.append('%s %d: %d sites (>= / <), %d sites (> / <=)' % (pat, lit, len(at), len(off)))
    ctx.covered(rule, 'comparisons of one quantity with one literal draw the same line at every site (leaf test of tree cells, SABA corrector types, test-particle variations)', n, floor=6, samples=samples)


# ------------------------------------------------------------------ time direction
STORED_TIMES = r'(last_collision|simulationarchive_next)\b(?!_step)'


def rule_time_direction(ctx, rule):
    """ordering comparisons that involve the simulation time"""
    n = 0
    samples = []
    for cfile, tu, fname, fn in _own_funcs():
        for e in walk(cfront.body(fn)):
            if e.get('kind') != 'BinaryOperator' or e.get('opcode') not in ('<', '<=', '>', '>=', '==', '!='):
                continue
            a, b = render(e['inner'][0]).replace(' ', ''), render(e['inner'][1]).replace(' ', '')
            isT = lambda x: re.fullmatch(r'\(*r\.t\)*', x) is not None
            mentionsT = lambda x: re.search(r'(^|[^\w.])r\.t\b', x) is not None
            where = 'src/%s:%s %s' % (cfile, line_of(e), fname)
            # (a) r->t against the literal 0
            la, lb = strip(e['inner'][0], casts=True), strip(e['inner'][1], casts=True)
            zero = lambda x: x.get('kind') in ('FloatingLiteral', 'IntegerLiteral') and float(x['value']) == 0.0
            if (isT(a) and zero(lb)) or (isT(b) and zero(la)):
                n += 1
                if e['opcode'] not in ('==', '!='):
                    ctx.report(rule, '%s:t-vs-zero' % fname, where,
                               'the simulation time is compared with 0 by %s: time may be negative (a start at t < 0, or an integration backwards from 0), and everything on that side of the comparison is treated like the special instant t = 0' % render(e))
                continue
            # (b) a stored time against r->t
            if (re.search(STORED_TIMES, a) and mentionsT(b)) or (re.search(STORED_TIMES, b) and mentionsT(a)):
                n += 1
                if e['opcode'] in ('==', '!='):
                    samples.append('%s: %s' % (where, render(e)))
                    continue
                fa = re.match(r'^\(*(\w+)\*', a)
                fb = re.match(r'^\(*(\w+)\*', b)
                if not fa or not fb or fa.group(1) != fb.group(1):
                    ctx.report(rule, '%s:direction' % fname, where,
                               'a stored time and the simulation time are ordered by %s without a common sign factor: the comparison means the opposite when time runs backwards (and is already true for every particle when t < 0 and the stored time is the initial 0)' % render(e))
                else:
                    samples.append('%s: %s' % (where, render(e)))
    ctx.covered(rule, 'comparisons involving the simulation time: identity, or ordered through one sign factor on both sides; r->t is compared with 0 for identity only', n, floor=4, samples=samples[:4])


# ------------------------------------------------------------------ prototype / definition
def rule_prototype_names(ctx, rule):
    tus = cfront.load_raw_tus()      # the names as written: a consistent renaming is exactly what this rule is about
    n = 0
    seen = set()
    for cfile, tu in sorted(tus.items()):
        for fname, fn in sorted(tu.funcs.items()):
            if fname in seen or cfront.body(fn) is None or cfront.basename(fn.get('_locfile') or fn.get('_file')) != cfile:
                continue
            protos = [p for t_ in tus.values() for p in [t_.protos.get(fname)] if p is not None]
            protos += [d for d in tu.decls if d.get('kind') == 'FunctionDecl' and d.get('name') == fname and d is not tu.funcs[fname] and not any(c.get('kind') == 'CompoundStmt' for c in d.get('inner', []))]
            if not protos:
                continue
            seen.add(fname)
            dn = [(p.get('name'), qtype(p)) for p in cfront.params(tu.funcs[fname])]
            body_ = cfront.body(tu.funcs[fname])
            for pr in protos[:1]:
                pn = [(p.get('name'), qtype(p)) for p in cfront.params(pr)]
                if len(pn) != len(dn):
                    continue
                n += 1
                names_d = [x[0] for x in dn]
                names_p = [x[0] for x in pn]
                for i, (a, b) in enumerate(zip(names_p, names_d)):
                    if a and b and a != b and a in names_d and b in names_p and dn[i][1] == dn[names_d.index(a)][1]:
                        ctx.report(rule, '%s:params' % fname, 'src/%s:%s %s' % (cfile, line_of(tu.funcs[fname]), fname),
                                   'parameter %d is called %s in the prototype (%s) and %s in the definition, and both names occur in both lists: callers that follow the header pass the two arguments in the other order than the body uses them'
                                   % (i + 1, a, cfront.basename(pr.get('_locfile') or pr.get('_file') or '?'), b))
                        break
    ctx.covered(rule, 'functions with a prototype: the parameter names of prototype and definition are not a permutation of each other', n, floor=150)


# ------------------------------------------------------------------ sentinel before use
def rule_sentinel_before_use(ctx, rule):
    n = 0
    for cfile, tu, fname, fn in _own_funcs():
        top = cfront.body(fn).get('inner', [])
        for k, st in enumerate(top):
            if st.get('kind') != 'IfStmt' or len(st['inner']) != 2:
                continue
            c = strip(st['inner'][0], casts=True)
            if not (c.get('kind') == 'BinaryOperator' and c.get('opcode') == '=='):
                continue
            lhs, rhs = strip(c['inner'][0], casts=True), strip(c['inner'][1], casts=True)
            if lhs.get('kind') != 'MemberExpr':
                continue
            lit = render(rhs).replace(' ', '')
            if not re.fullmatch(r'\(?-\d+(\.\d*)?\)?', lit):
                continue            # sentinels are negative literals (-1: "not set")
            m = render(lhs).replace(' ', '')
            body = st['inner'][1]
            stmts = body.get('inner', []) if body.get('kind') == 'CompoundStmt' else [body]
            if not any(is_assign(strip(s_)) and render(strip(s_)['inner'][0]).replace(' ', '') == m for s_ in stmts):
                continue
            n += 1
            for prev in top[:k]:
                for x in walk(prev):
                    if x.get('kind') == 'MemberExpr' and render(x).replace(' ', '') == m:
                        ctx.report(rule, '%s:%s' % (fname, m), 'src/%s:%s %s' % (cfile, line_of(x), fname),
                                   '%s is read here, before the statement at line %s replaces its "not set" value %s by the default: on the first call the value computed from it is computed from the sentinel' % (m, line_of(st), lit))
                        break
                else:
                    continue
                break
    ctx.covered(rule, 'members with a "not set" sentinel that a function replaces by a default are not read before the replacement', n, floor=1)


# ------------------------------------------------------------------ typed hash stores
def rule_hash_stores(ctx, rule):
    n = 0
    for cfile, tu, fname, fn in _own_funcs():
        for e in walk(cfront.body(fn)):
            if not (is_assign(e) and e['opcode'] == '='):
                continue
            l = strip(e['inner'][0])
            if l.get('kind') == 'MemberExpr' and l.get('name') == 'hash' and 'int' in qtype(l):
                n += 1
                src = strip(e['inner'][1], casts=True)
                t = qtype(src)
                if 'double' in t or 'float' in t:
                    ctx.report(rule, '%s:hash' % fname, 'src/%s:%s %s' % (cfile, line_of(e), fname),
                               'the particle hash is assigned %s, a value of type %s: it is truncated to an integer (an eccentricity component becomes hash 0) and the particle can no longer be found by the hash it was given' % (render(src), t))
    ctx.covered(rule, 'stores into a particle hash take an integer value', n, floor=5)


# ------------------------------------------------------------------ index normalisation of the snapshot loader
def rule_snapshot_index(ctx, rule):
    from . import x4
    tu = cfront.load_tu('simulationarchive.c')
    fn = tu.func('reb_simulation_create_from_simulationarchive_with_messages')
    ps = [p.get('name') for p in cfront.params(fn)]
    idx = [p.get('name') for p in cfront.params(fn) if qtype(p).replace('const', '').strip() in ('int64_t', 'long', 'int', 'long long')]
    anchor(len(idx) == 1, 'snapshot index parameter of reb_simulation_create_from_simulationarchive_with_messages')
    idx = idx[0]
    top = cfront.body(fn).get('inner', [])
    # the prologue: statements up to the first one that uses the index as a subscript
    pro = []
    for st in top:
        e0 = strip(st)
        if any(x.get('kind') == 'ArraySubscriptExpr' and idx in render(x['inner'][1]) for x in walk(st)):
            break
        if not (st.get('kind') in ('DeclStmt', 'IfStmt') or (is_assign(e0) and render(e0['inner'][0]).replace(' ', '') == idx)):
            break           # the work starts here (seek, initialise, read)
        pro.append(st)
    anchor(any(st.get('kind') == 'IfStmt' and any(x.get('kind') == 'DeclRefExpr' and x['referencedDecl'].get('name') == idx for x in walk(st['inner'][0])) for st in pro) and len(pro) < len(top),
           'prologue of the snapshot loader (normalisation and range check of %s)' % idx)
    n = 0
    bad = []
    for nb in (1, 3):
        for s in range(-nb - 2, nb + 3):
            it = x4.Interp({}, {}, {}, set(), set(), {'sa.nblobs': nb})
            env = {p_: ('@' + p_) for p_ in ps if p_}
            env[idx] = x4.Poly.const(s)
            outcome = None
            try:
                for st in pro:
                    if st.get('kind') == 'IfStmt':
                        try:
                            c = x4._p(it.ev(st['inner'][0], env)).value()
                        except x4.Unknown:
                            if any(x.get('kind') == 'DeclRefExpr' and x['referencedDecl'].get('name') == idx for x in walk(st['inner'][0])):
                                raise AnalysisError('%s: the test %s on the snapshot index cannot be evaluated' % (rule, render(st['inner'][0])))
                            continue        # a test about something else (file open, sa == NULL)
                        br = st['inner'][1] if c != 0 else (st['inner'][2] if len(st['inner']) > 2 else None)
                        if br is None:
                            continue
                        if any(x.get('kind') == 'ReturnStmt' for x in walk(br)):
                            outcome = 'rejected'
                            break
                        for e in walk(br):
                            if is_assign(e) and render(e['inner'][0]).replace(' ', '') == idx:
                                v = x4._p(it.ev(e['inner'][1], env))
                                cur = x4._p(env[idx])
                                env[idx] = {'=': v, '+=': cur + v, '-=': cur - v}[e['opcode']]
                    else:
                        e = strip(st)
                        if is_assign(e) and render(e['inner'][0]).replace(' ', '') == idx:
                            v = x4._p(it.ev(e['inner'][1], env))
                            cur = x4._p(env[idx])
                            env[idx] = {'=': v, '+=': cur + v, '-=': cur - v}[e['opcode']]
            except x4.Unknown as ex:
                raise AnalysisError('%s: prologue of the snapshot loader not evaluable for index %d: %s' % (rule, s, ex))
            n += 1
            got = outcome or int(x4._p(env[idx]).value())
            want = (s % nb) if -nb <= s < nb else 'rejected'
            if got != want:
                bad.append('%d snapshots, index %d -> %s (expected %s)' % (nb, s, got, want))
    if bad:
        ctx.report(rule, 'loader:index', 'src/simulationarchive.c:%s %s' % (line_of(fn), fn['name']),
                   'the index handling of the snapshot loader is wrong on %d of the evaluated cases, e.g. %s: negative indices count from the end (-k is snapshot n-k) and everything outside -n .. n-1 is refused' % (len(bad), '; '.join(bad[:3])))
    ctx.covered(rule, 'snapshot loader: index normalisation and range check evaluated for n = 1, 3 and indices -n-2 .. n+2', n, floor=10)


# ------------------------------------------------------------------ frame shifts reach N = 1
def rule_single_particle(ctx, rule, funcs=(('tools.c', 'reb_simulation_move_to_hel'), ('tools.c', 'reb_simulation_move_to_com'))):
    from . import pathcond, extents
    n = 0
    for cfile, fname in funcs:
        tu = cfront.load_tu(cfile)
        fn = tu.func(fname)
        NV = extents.named_values(fn)
        pc = pathcond.conditions(fn, nodes=True)
        loops = [f for f in walk(cfront.body(fn)) if f.get('kind') == 'ForStmt' and any(is_assign(x) and re.search(r'particles\[', render(x['inner'][0])) for x in walk(f['inner'][-1]))]
        anchor(loops, 'loop that shifts the particles in %s' % fname)
        for f in loops[:1]:
            n += 1
            for c in pc.get(id(f), []):
                c0 = strip(c, casts=True)
                if c0.get('kind') != 'BinaryOperator' or c0.get('opcode') not in ('<', '<=', '>', '>=', '==', '!='):
                    continue
                a = extents.canon(extents.resolve(render(c0['inner'][0]), NV))
                b = strip(c0['inner'][1], casts=True)
                if a == extents.canon(extents.REAL) and b.get('kind') == 'IntegerLiteral':
                    v = int(b['value'])
                    holds = {'<': 1 < v, '<=': 1 <= v, '>': 1 > v, '>=': 1 >= v, '==': 1 == v, '!=': 1 != v}[c0['opcode']]
                    if not holds:
                        ctx.report(rule, '%s:N1' % fname, 'src/%s:%s %s' % (cfile, line_of(c0), fname),
                                   'the shift is only carried out if %s, which is false for a simulation with one particle: that particle is not moved to the origin / brought to rest' % render(c0))
    ctx.covered(rule, 'frame shifts are carried out for a single particle too', n, floor=2)


# ------------------------------------------------------------------ dt_last_done is the step size of the step just taken
def rule_last_done_is_last(ctx, rule):
    """Each integrator's part2 records r->dt_last_done = r->dt for the step it completes. Code that runs inside part2 may
    record its own value (the IAS15 sub-steps of a TRACE / MERCURIUS encounter set dt_last_done to the sub-step size), so
    the assignment has to come after every call that can reach such an assignment - integrate() puts the user's step size
    back from dt_last_done after a shortened last step."""
    tus = cfront.load_tus()
    # functions that (transitively, within the library) assign r->dt_last_done
    direct = set()
    calls = {}
    for cfile, tu, fname, fn in _own_funcs():
        cs = set()
        for e in walk(cfront.body(fn)):
            if is_assign(e) and render(e['inner'][0]).replace(' ', '') == 'r.dt_last_done':
                direct.add(fname)
            if e.get('kind') == 'CallExpr' and callee_name(e):
                cs.add(callee_name(e))
        calls[fname] = cs
    reach = set(direct)
    changed = True
    while changed:
        changed = False
        for f, cs in calls.items():
            if f not in reach and cs & reach:
                reach.add(f)
                changed = True
    n = 0
    for cfile, tu, fname, fn in _own_funcs():
        if not re.match(r'^reb_integrator_\w+_part2$', fname):
            continue
        assigns = [e for e in walk(cfront.body(fn)) if is_assign(e) and e['opcode'] == '=' and render(e['inner'][0]).replace(' ', '') == 'r.dt_last_done'
                   and render(e['inner'][1]).replace(' ', '').strip('()') in ('r.dt', 'dt')]
        if not assigns:
            continue
        n += 1
        first = min(line_of(a) for a in assigns)
        for e in walk(cfront.body(fn)):
            if e.get('kind') == 'CallExpr' and callee_name(e) in reach and callee_name(e) != fname and line_of(e) > first:
                ctx.report(rule, '%s:dt_last_done' % fname, 'src/%s:%s %s' % (cfile, line_of(e), fname),
                           'r->dt_last_done is set to the step size at line %s, but %s, called afterwards, can assign it again (sub-steps record their own size): integrate() then restores a sub-step size as the user\'s timestep after a shortened last step' % (first, callee_name(e)))
                break
    ctx.covered(rule, 'part2 functions record dt_last_done = dt after every call that can assign dt_last_done', n, floor=5)


# ------------------------------------------------------------------ cached particle counts are compared for identity
def rule_cached_count_identity(ctx, rule, files=('integrator_janus.c',)):
    """An integrator that keeps its own copy of the state for exactly N particles (JANUS: the integer coordinates) records
    the N it was built for and rebuilds when `N_allocated != N`. Every other comparison of the two in the same file asks
    the same question ("is my copy the copy of these particles?") and is an identity test too: after a merger N is smaller
    than N_allocated, and a `>=` would write the stale copy over the merged particles."""
    n = 0
    for cfile, tu, fname, fn in _own_funcs():
        if cfile not in files:
            continue
        for e in walk(cfront.body(fn)):
            if e.get('kind') != 'BinaryOperator' or e.get('opcode') not in ('<', '<=', '>', '>=', '==', '!='):
                continue
            a, b = render(e['inner'][0]).replace(' ', ''), render(e['inner'][1]).replace(' ', '')
            if not ((a.endswith('.N_allocated') and b in ('N', 'r.N')) or (b.endswith('.N_allocated') and a in ('N', 'r.N'))):
                continue
            n += 1
            if e['opcode'] not in ('==', '!='):
                ctx.report(rule, '%s:count' % fname, 'src/%s:%s %s' % (cfile, line_of(e), fname),
                           'the particle count the internal copy was built for is compared with the current count by %s; the copy is valid for exactly that count (the rebuild test in this file is `!=`): after particles were removed the stale copy is still used' % render(e))
    ctx.covered(rule, 'comparisons between an integrator\'s recorded particle count and N are identity tests (%s)' % ', '.join(files), n, floor=2)


# ------------------------------------------------------------------ variational sets are transformed like the real particles
def rule_variational_call_args(ctx, rule):
    """In WHFast the Jacobi transformation of a variational set is the transformation of the real particles applied at an
    offset: same function, same counts. The trailing (N, N_active) arguments of the call inside the loop over the
    variational configurations equal those of the call for the real particles next to it."""
    tu = cfront.load_tu('integrator_whfast.c')
    n = 0
    for fname in sorted(tu.funcs):
        fn = tu.func(fname)
        if cfront.body(fn) is None:
            continue
        for comp in walk(cfront.body(fn)):
            if comp.get('kind') != 'CompoundStmt' and comp.get('kind') != 'CaseStmt':
                continue
            items = comp.get('inner', [])
            for i, st in enumerate(items):
                while st.get('kind') in ('CaseStmt', 'DefaultStmt') and st.get('inner'):
                    st = st['inner'][-1]          # `case X: call(...);` - the call is the statement under the label
                s0 = strip(st)
                if not (s0.get('kind') == 'CallExpr' and (callee_name(s0) or '').startswith('reb_particles_transform_')):
                    continue
                nxt = [x for x in items[i + 1:i + 2] + items[max(0, i - 1):i] if x.get('kind') == 'ForStmt' and x['inner'][2] and 'N_var_config' in render(x['inner'][2])]
                for loop in nxt:
                    for e in walk(loop['inner'][-1]):
                        if e.get('kind') == 'CallExpr' and callee_name(e) == callee_name(s0):
                            n += 1
                            ra = [render(a).replace(' ', '') for a in call_args(s0)][-2:]
                            va = [render(a).replace(' ', '') for a in call_args(e)][-2:]
                            if ra != va:
                                ctx.report(rule, '%s:%s:counts' % (fname, callee_name(e).replace('reb_particles_transform_', '')), 'src/integrator_whfast.c:%s %s' % (line_of(e), fname),
                                           'the variational set is transformed with the counts (%s) while the real particles next to it use (%s): with test particles that carry mass the two transformations use different centres of mass and the round trip of the variational particles is not the identity' % (', '.join(va), ', '.join(ra)))
    ctx.covered(rule, 'WHFast: variational sets are transformed with the same particle counts as the real particles', n, floor=3)


# ------------------------------------------------------------------ forward and inverse map sum over the same particles
def rule_dh_pair_extents(ctx, rule):
    """The democratic-heliocentric maps of MERCURIUS and TRACE form a pair: inertial_to_dh computes the centre of mass of
    the bodies that count as massive (the active ones unless testparticle_type = 1) and dh_to_inertial undoes it with a sum
    over the same bodies. The upper bounds of the mass-weighted accumulation loops of the two functions of a pair agree."""
    from . import extents
    n = 0
    for cfile, a, b in (('integrator_mercurius.c', 'reb_integrator_mercurius_inertial_to_dh', 'reb_integrator_mercurius_dh_to_inertial'),
                        ('integrator_trace.c', 'reb_integrator_trace_inertial_to_dh', 'reb_integrator_trace_dh_to_inertial')):
        tu = cfront.load_tu(cfile)
        bounds = {}
        for fname in (a, b):
            fn = tu.func(fname)
            NV = extents.named_values(fn)
            for f in walk(cfront.body(fn)):
                if f.get('kind') != 'ForStmt' or not f['inner'][2]:
                    continue
                acc = [e for e in walk(f['inner'][-1]) if is_assign(e) and e['opcode'] in ('+=', '-=') and re.search(r'\.m\b|\bm\b', render(e['inner'][1])) and '[' not in render(e['inner'][0])]
                if not acc:
                    continue
                c = strip(f['inner'][2], casts=True)
                if c.get('kind') == 'BinaryOperator' and c.get('opcode') in ('<', '<='):
                    bounds.setdefault(fname, []).append((extents.canon(extents.resolve(render(c['inner'][1]), NV)), line_of(f)))
        anchor(a in bounds and b in bounds, 'mass-weighted accumulation loops of %s and %s' % (a, b))
        n += 1
        ba, bb = bounds[a][0], bounds[b][0]
        if ba[0] != bb[0]:
            ctx.report(rule, '%s:extent' % b, 'src/%s:%s %s' % (cfile, bb[1], b),
                       'the inverse map sums over particles below %s while %s sums over particles below %s: with massive bodies beyond N_active the pair is no longer the identity (the whole system is shifted by about m_tp/m_star)' % (bb[0], a, ba[0]))
    ctx.covered(rule, 'democratic heliocentric maps of MERCURIUS and TRACE: forward and inverse sum over the same bodies', n, floor=2)


# ------------------------------------------------------------------ a particle on a face of the box is inside
def rule_box_face_strictness(ctx, rule):
    """The boundary code treats a coordinate equal to +-boxsize/2 as inside the box (it wraps / removes only beyond the
    face: `x > boxsize.x/2`, `x < -boxsize.x/2`). Every other test of a coordinate against half the box size draws the same
    line; a non-strict comparison refuses or drops a particle that the boundary check has just left in place (the tree
    update re-inserts particles through the same guard)."""
    from . import extents
    n = 0
    for cfile, tu, fname, fn in _own_funcs():
        NV = extents.named_values(fn)
        for e in walk(cfront.body(fn)):
            if e.get('kind') != 'BinaryOperator' or e.get('opcode') not in ('<', '<=', '>', '>='):
                continue
            a = extents.canon(extents.resolve(render(e['inner'][0]), NV))
            b = extents.canon(extents.resolve(render(e['inner'][1]), NV))
            half = lambda x: re.fullmatch(r'-?(r\.)?boxsize\.[xyz]/2(\.0*)?', x) is not None
            coord = lambda x: re.search(r'\.(x|y|z)$', x.replace('fabs', '')) is not None and 'boxsize' not in x
            if not ((half(a) and coord(b)) or (half(b) and coord(a))):
                continue
            n += 1
            if e['opcode'] in ('<=', '>='):
                ctx.report(rule, '%s:face' % fname, 'src/%s:%s %s' % (cfile, line_of(e), fname),
                           'the coordinate is compared with half the box size by %s, the boundary check uses the strict comparison: a particle exactly on a face is inside for the boundary code and outside for this test (it is refused, or dropped when the tree re-inserts it)' % render(e))
    ctx.covered(rule, 'comparisons of a coordinate with half the box size are strict everywhere', n, floor=12)


# ------------------------------------------------------------------ drift distances are magnitudes
def rule_drift_magnitudes(ctx, rule):
    """The line searches enlarge their search radii by the distance a particle can have moved during the last step:
    |dt_last_done| * |v|. The step may be negative (integration backwards), the distance may not: a product of the signed
    step with a speed (a square root) that is added to radii has to be taken through fabs - otherwise the tree search
    *shrinks* its opening radius when time runs backwards and misses the pairs the brute-force line search finds."""
    n = 0
    for cfile, tu, fname, fn in _own_funcs():
        if cfile != 'collision.c':
            continue
        inside_fabs = set()
        for e in walk(cfront.body(fn)):
            if e.get('kind') == 'CallExpr' and callee_name(e) in ('fabs', 'fabsf'):
                for x in walk(e):
                    inside_fabs.add(id(x))
        for e in walk(cfront.body(fn)):
            if e.get('kind') != 'BinaryOperator' or e.get('opcode') != '*':
                continue
            a, b = e['inner']
            ra, rb = render(a).replace(' ', ''), render(b).replace(' ', '')
            step = [x for x in (ra, rb) if re.fullmatch(r'\(*(r\.)?dt_last_done\)*', x)]
            mag = [x for x in (ra, rb) if re.fullmatch(r'\(*fabsf?\(+(r\.)?dt_last_done\)+', x)]
            speed = any(y.get('kind') == 'CallExpr' and callee_name(y) == 'sqrt' for x in (a, b) for y in walk(x))
            if not (step or mag) or not speed:
                continue
            n += 1
            if step and id(e) not in inside_fabs:
                ctx.report(rule, '%s:drift' % fname, 'src/%s:%s %s' % (cfile, line_of(e), fname),
                           'the drift distance %s carries the sign of the last step: for a backward integration it is negative and the search radius it is added to shrinks - the tree search then misses approaching pairs that the direct line search reports' % render(e))
    ctx.covered(rule, 'drift distances added to search radii are magnitudes (|dt_last_done| times a speed)', n, floor=2)
