"""C07 - a crash during an archive write never loses completed snapshots: static necessary conditions."""
import ast
import re

from ..core import AnalysisError, anchor
from .. import cfront, normal, pyfront, layout
from ..cfront import walk, strip, callee_name, call_args, render, line_of, is_assign, qtype
from . import serial, c06

# functions that are documented to take ownership of (and release) a pointer parameter
DESTRUCTORS = {
    'reb_simulation_free': 'documented destructor',
    'reb_simulationarchive_free': 'documented destructor',
    'reb_ode_free': 'documented destructor',
    'reb_free': 'generic free exposed to Python',
    'reb_simulation_output_free_stream': 'frees a buffer handed out by save_to_stream (pickling)',
    'reb_tree_delete_cell': 'recursive destructor of tree cells',
    'reb_simulation_update_tree_cell': 'consumes a node and returns its replacement',
    'reb_input_process_warnings': 'documented to free r and return NULL on a major error',
    'reb_fmemopen_close': 'cookie close callback',
}
CONTROL_FRAGMENT = '''
void rebverif_control(struct T* h){ free(h); }
'''


def rule_ownership(ctx):
    """R07.1: no function frees one of its own pointer parameters unless it is a documented destructor."""
    tus = cfront.load_tus()
    n = 0
    found = []
    for cfile, tu in tus.items():
        for fname, fn in tu.funcs.items():
            if cfront.basename(fn.get('_locfile') or fn.get('_file')) != cfile:
                continue
            ps = {p['name'] for p in cfront.params(fn) if p.get('name') and '*' in qtype(p)}
            if not ps:
                continue
            n += 1
            reassigned = set()
            for e in walk(cfront.body(fn)):
                if is_assign(e) and e['opcode'] == '=':
                    l = strip(e['inner'][0])
                    if l.get('kind') == 'DeclRefExpr':
                        reassigned.add(l['referencedDecl']['name'])
            for e in walk(cfront.body(fn)):
                if e.get('kind') == 'CallExpr' and callee_name(e) == 'free':
                    a = strip(call_args(e)[0], casts=True)
                    if a.get('kind') == 'DeclRefExpr' and a['referencedDecl']['name'] in ps and a['referencedDecl'].get('kind') == 'ParmVarDecl':
                        pname = a['referencedDecl']['name']
                        found.append((cfile, fname, pname, line_of(e)))
                        if fname in DESTRUCTORS or pname in reassigned:
                            continue
                        ctx.report('R07.1', 'free-param:%s:%s' % (fname, pname), 'src/%s:%s %s' % (cfile, line_of(e), fname),
                                   '%s frees its parameter %s although it does not own it: the caller (C code that frees or returns it again, or Python, where it is the ctypes object\'s own buffer) is left with a dangling or invalid pointer'
                                   % (fname, pname))
    # positive control: the detector must see a free of a parameter in the known destructors
    anchor(any(f[1] == 'reb_simulationarchive_free' for f in found), 'control: free(sa) in reb_simulationarchive_free is seen by the detector')
    ctx.covered('R07.1', 'functions with pointer parameters: free(parameter) only in documented destructors (%d such sites seen)' % len(found), n, floor=250,
                samples=['src/%s:%s %s frees %s' % (c, l, f, p) for c, f, p, l in found[:4]])


def rule_error_path_state(ctx):
    """R07.2: on the error paths of the index builder a freed member is reset to NULL (the handle stays valid for
    reb_simulationarchive_free_pointers / Python's __del__)."""
    tu = cfront.load_tu('simulationarchive.c')
    fn = tu.func('reb_read_simulationarchive_from_stream_with_messages')
    n = 0
    samples = []
    for comp in walk(cfront.body(fn)):
        if comp.get('kind') != 'CompoundStmt':
            continue
        items = comp.get('inner', [])
        for i, st in enumerate(items):
            s = strip(st)
            if s.get('kind') == 'CallExpr' and callee_name(s) in ('free', 'fclose'):
                a = render(strip(call_args(s)[0], casts=True))
                if not a.startswith('sa.'):
                    continue
                n += 1
                nxt = [strip(x) for x in items[i + 1:i + 3]]
                ok = any(is_assign(x) and render(x['inner'][0]) == a and render(x['inner'][1]) in ('0', '((void*)0)', 'NULL') or
                         (is_assign(x) and render(x['inner'][0]) == a and 'void' in render(x['inner'][1])) for x in nxt)
                if not ok:
                    ctx.report('R07.2', 'index:dangling:' + a, 'src/simulationarchive.c:%s reb_read_simulationarchive_from_stream_with_messages' % line_of(s),
                               '%s is released but not reset to NULL: the handle is later passed to reb_simulationarchive_free_pointers, which releases it again' % a)
                samples.append('src/simulationarchive.c:%s %s(%s) then reset' % (line_of(s), callee_name(s), a))
    ctx.covered('R07.2', 'members of the archive handle released on error paths are reset to NULL', n, floor=6, samples=samples[:3])


def rule_io_discipline(ctx):
    """R07.3: inside the per-snapshot loop of the index builder the result of every fread/fseek flows into a test
    that can set read_error / next_blob_is_corrupted."""
    tu = cfront.load_tu('simulationarchive.c')
    fn = normal.normalised_function(tu.func('reb_read_simulationarchive_from_stream_with_messages'), guards=False)   # while-with-counter == for
    loops = [x for x in walk(cfront.body(fn)) if x.get('kind') == 'ForStmt' and 'nblobsmax' in render(x['inner'][2])]
    anchor(len(loops) == 1, 'the per-snapshot loop of the index builder')
    loop = loops[0]
    n = 0
    samples = []
    tested = set()
    for ifs in walk(loop):
        if ifs.get('kind') == 'IfStmt':
            for x in walk(ifs['inner'][0]):
                if x.get('kind') == 'DeclRefExpr':
                    tested.add(x['referencedDecl']['name'])
    for w in walk(loop):
        if w.get('kind') in ('DoStmt', 'WhileStmt'):
            for x in walk(w['inner'][-1] if w.get('kind') == 'DoStmt' else w['inner'][0]):
                if x.get('kind') == 'DeclRefExpr':
                    tested.add(x['referencedDecl']['name'])
    # a flag that names a comparison (const int bad = (r3 != 1); if (bad) ...): testing the flag tests what it was computed from
    changed = True
    while changed:
        changed = False
        for d in walk(loop):
            src = None
            if d.get('kind') == 'VarDecl' and 'init' in d and d.get('name') in tested:
                init = [c for c in d.get('inner', []) if c.get('kind') not in ('FullComment',)]
                src = init[-1] if init else None
            elif is_assign(d) and render(d['inner'][0]) in tested:
                src = d['inner'][1]
            if src is not None and not any(x.get('kind') == 'CallExpr' for x in walk(src)):
                for x in walk(src):
                    if x.get('kind') == 'DeclRefExpr' and x['referencedDecl']['name'] not in tested:
                        tested.add(x['referencedDecl']['name'])
                        changed = True
    # map call -> variable receiving its result
    assigned = {}
    for d in walk(loop):
        if d.get('kind') == 'VarDecl' and 'init' in d:
            init = [c for c in d.get('inner', []) if c.get('kind') not in ('FullComment',)]
            if init:
                for x in walk(init[-1]):
                    if x.get('kind') == 'CallExpr' and callee_name(x) in ('fread', 'fseek'):
                        assigned[id(x)] = d['name']
        if is_assign(d):
            for x in walk(d['inner'][1]):
                if x.get('kind') == 'CallExpr' and callee_name(x) in ('fread', 'fseek'):
                    assigned[id(x)] = render(d['inner'][0])
    for x in walk(loop):
        if x.get('kind') == 'CallExpr' and callee_name(x) in ('fread', 'fseek'):
            n += 1
            where = 'src/simulationarchive.c:%s reb_read_simulationarchive_from_stream_with_messages' % line_of(x)
            var = assigned.get(id(x))
            if var is None:
                ctx.report('R07.3', 'index:unchecked:%s:%s' % (callee_name(x), render(call_args(x)[0])[:24]), where,
                           'the result of %s is discarded inside the index loop: a file cut at this point is indexed as if the read had succeeded' % render(x)[:70])
            elif var not in tested:
                ctx.report('R07.3', 'index:untested:%s' % var, where, 'the result of %s is stored in %s but never tested' % (callee_name(x), var))
            samples.append('%s -> %s' % (render(x)[:50], var))
    ctx.covered('R07.3', 'fread/fseek calls in the per-snapshot index loop: result stored and tested', n, floor=6, samples=samples[:3])


def rule_python_raises(ctx, rule='R07.4', files=('rebound/simulationarchive.py', 'rebound/simulation.py'), floor=60):
    """An exception that is constructed as an expression statement is never raised."""
    db = pyfront.pydb()
    n = 0
    # frozen exception: unreachable by reading (every path with nblobs<1 sets a major error bit first)
    UNREACHABLE = {('rebound/simulationarchive.py', 'RuntimeError', 'Something went wrong. Simulationarchive is empty.'):
                   'every path of the C initialiser that leaves nblobs<1 sets a major error bit, which raises a few lines above'}
    for rel, tree in db.files.items():
        if rel not in files:
            continue
        for node in ast.walk(tree):
            if isinstance(node, ast.Raise):
                n += 1
            if isinstance(node, ast.Expr) and isinstance(node.value, ast.Call):
                nm = pyfront._name(node.value.func)
                if nm and (nm.endswith('Error') or nm.endswith('Exception') or nm in ('Escape', 'Encounter', 'Collision', 'NoParticles', 'KeyboardInterrupt')):
                    n += 1
                    msg = node.value.args[0].value if node.value.args and isinstance(node.value.args[0], ast.Constant) else ''
                    if (rel, nm, msg) in UNREACHABLE:
                        ctx.note('R07.4 %s:%d %s(...) is constructed but not raised; not reported: %s' % (rel, node.lineno, nm, UNREACHABLE[(rel, nm, msg)]))
                        continue
                    ctx.report(rule, 'noraise:%s:%s' % (rel.split('/')[-1], nm), '%s:%d' % (rel, node.lineno),
                               '%s(%r) is constructed but not raised: the error is silently ignored' % (nm, str(msg)[:60]))
    ctx.covered(rule, 'Python raise statements and exception constructions in %s: none is an expression statement' % (list(files),), n, floor=floor)


def rule_warning_table(ctx):
    """R07.5: BINARY_WARNINGS lists exactly the non-zero enumerators of reb_simulation_binary_error_codes,
    major iff the C name says ERROR; both Python users of the table raise on major errors."""
    tu = cfront.load_tu('input.c')
    codes = dict(tu.enum_types.get('reb_simulation_binary_error_codes') or [])
    anchor(codes, 'enum reb_simulation_binary_error_codes')
    db = pyfront.pydb()
    node = db.module_assigns.get(('rebound/simulation.py', 'BINARY_WARNINGS'))
    anchor(node is not None, 'BINARY_WARNINGS in simulation.py')
    table = pyfront.const_value(node)
    py = {row[1]: bool(row[0]) for row in table}
    n = 0
    where = 'rebound/simulation.py:%d BINARY_WARNINGS' % node.lineno
    for name, v in sorted(codes.items(), key=lambda kv: kv[1]):
        if v == 0:
            continue
        n += 1
        if v not in py:
            ctx.report('R07.5', 'warn:%s' % name, where, 'C code %s=%d has no entry: this condition is silently ignored when opening an archive' % (name, v))
        elif py[v] != ('_ERROR_' in name):
            ctx.report('R07.5', 'warn:%s:severity' % name, where, '%s=%d is %s in C but %s in Python' % (name, v, 'an error' if '_ERROR_' in name else 'a warning', 'major' if py[v] else 'a warning'))
    for v in py:
        n += 1
        if v not in codes.values():
            ctx.report('R07.5', 'warn:py%d' % v, where, 'Python lists code %d which C never sets' % v)
    # users of the table raise on major errors
    users = 0
    for rel, tree in db.files.items():
        if '/tests/' in rel:
            continue
        for node_ in ast.walk(tree):
            if isinstance(node_, ast.For) and isinstance(node_.iter, ast.Name) and node_.iter.id == 'BINARY_WARNINGS':
                users += 1
                n += 1
                raises = any(isinstance(x, ast.Raise) for x in ast.walk(node_))
                if not raises:
                    ctx.report('R07.5', 'warn:user:%s:%d' % (rel.split('/')[-1], users), '%s:%d' % (rel, node_.lineno), 'this loop over BINARY_WARNINGS never raises: major errors are not reported')
    anchor(users >= 3, 'at least three loops over BINARY_WARNINGS')
    # the C warning codes are set with |= (they are flags)
    ctx.covered('R07.5', 'binary warning codes: C enum vs Python table (presence, severity), users raise on major errors', n, floor=20,
                samples=['%d C codes, %d Python rows, %d users' % (len(codes) - 1, len(py), users)])


def rule_cadence_persisted(ctx):
    """R07.6: everything the cadence logic reads is persisted (or is the clock/filename), so a restart neither skips
    nor duplicates snapshots."""
    recs, rows, dt, inv, sim = serial.rows_and_leaves()
    persisted = set()
    for r in rows:
        pm = serial.row_member(sim, inv, r) if inv.get(r.dtype) not in serial.SKIP else None
        if pm:
            persisted.add(pm[0])
    tu = cfront.load_tu('simulationarchive.c')
    fn = tu.func('reb_simulationarchive_heartbeat')
    reads = set()
    for x in walk(cfront.body(fn)):
        if x.get('kind') == 'MemberExpr':
            p = render(x)
            if p.startswith('r.') and p.count('.') == 1:
                reads.add(p[2:])
    allowed = {'simulationarchive_filename': 're-attached by the call that continues the archive'}
    n = 0
    for m in sorted(reads):
        n += 1
        if m in persisted or m in allowed:
            continue
        ctx.report('R07.6', 'cadence:unpersisted:' + m, 'src/simulationarchive.c reb_simulationarchive_heartbeat',
                   'the cadence logic reads r->%s, which is not persisted: after a restart from a snapshot the cadence differs from the uninterrupted run' % m)
    ctx.covered('R07.6', 'members read by the archive heartbeat are persisted', n, floor=8, samples=['reads %s' % sorted(reads)])


def rule_usable_condition(ctx):
    """R07.8: C and Python agree on when a damaged archive is still usable: C keeps it iff nblobs>0, Python treats
    nblobs<1 as empty."""
    tu = cfront.load_tu('simulationarchive.c')
    fn = tu.func('reb_read_simulationarchive_from_stream_with_messages')
    n = 0
    found = False
    # by path conditions (nested ifs, `a && b`, `!= 0` spellings alike): the assignments of warning/error bits that are reached
    # with read_error set
    from . import pathcond

    def atoms(cs):
        out = []
        for c in cs:
            c = c.strip()
            while c.startswith('(') and c.endswith(')') and c.count('(') == c.count(')') and '&&' in c and not c.startswith('!('):
                inner = c[1:-1]
                depth = 0
                ok = True
                for ch in inner:
                    depth += ch == '('
                    depth -= ch == ')'
                    if depth < 0:
                        ok = False
                        break
                if not ok:
                    break
                c = inner
            parts, depth, cur = [], 0, ''
            k = 0
            while k < len(c):
                if c[k] == '(':
                    depth += 1
                elif c[k] == ')':
                    depth -= 1
                if depth == 0 and c[k:k + 2] == '&&':
                    parts.append(cur)
                    cur = ''
                    k += 2
                    continue
                cur += c[k]
                k += 1
            parts.append(cur)
            out += [x.strip() for x in parts]
        norm = []
        for a in out:
            while a.startswith('(') and a.endswith(')'):
                a = a[1:-1]
            if a.endswith('!=0') and a.count('=') == 1:
                a = a[:-3]
            norm.append(a)
        # !(x && y) together with x gives !y
        more = []
        for a in norm:
            if a.startswith('!(') and a.endswith(')') and '&&' in a:
                inner = atoms([a[1:]])
                known = [x for x in inner if x in norm]
                rest = [x for x in inner if x not in norm]
                if known and len(rest) == 1:
                    more.append('!(%s)' % rest[0])
        return norm + more
    pcs = pathcond.conditions(fn)
    usable = {'sa.nblobs>0', 'sa.nblobs>=1', 'sa.nblobs', 'sa.nblobs!=0', '0<sa.nblobs'}
    unusable = {'sa.nblobs<=0', 'sa.nblobs<1', '!sa.nblobs', 'sa.nblobs==0', '!(sa.nblobs>0)'}
    seen_warn = seen_err = False
    for e in walk(cfront.body(fn)):
        if not (is_assign(e) and 'warnings' in render(e['inner'][0])):
            continue
        at = atoms(pcs.get(id(e), []))
        if 'read_error' not in at:
            continue
        rhs = render(e['inner'][1])
        nb = [a for a in at if 'sa.nblobs' in a and '&&' not in a]
        if not nb:
            continue
        found = True
        n += 1
        where = 'src/simulationarchive.c:%s reb_read_simulationarchive_from_stream_with_messages' % line_of(e)
        if any(a in usable for a in nb):
            seen_warn = True
            if '_WARNING_' not in rhs or '_ERROR_' in rhs:
                ctx.report('R07.8', 'index:usable:warn', where, 'a partially readable archive must only raise a warning bit (%s)' % rhs)
        elif any(a in unusable for a in nb):
            seen_err = True
            if '_ERROR_' not in rhs:
                ctx.report('R07.8', 'index:empty:error', where, 'an archive without any complete snapshot does not set an error bit')
        else:
            ctx.report('R07.8', 'index:usable', where,
                       'after a read error the archive is kept only if %s: completed snapshots are thrown away although at least one is intact' % ' && '.join(nb))
    if found and not seen_warn:
        ctx.report('R07.8', 'index:usable', 'src/simulationarchive.c reb_read_simulationarchive_from_stream_with_messages', 'after a read error no branch keeps an archive that has at least one complete snapshot (nblobs > 0)')
    if found and not seen_err:
        ctx.report('R07.8', 'index:empty:error', 'src/simulationarchive.c reb_read_simulationarchive_from_stream_with_messages', 'an archive without any complete snapshot does not set an error bit')
    anchor(found, 'the "read_error / nblobs" decision in the index builder')
    # sa->nblobs only grows after all tests of the snapshot passed
    sets = [e for e in walk(cfront.body(fn)) if is_assign(e) and render(e['inner'][0]) == 'sa.nblobs']
    n += 1
    if not any(render(e['inner'][1]).replace(' ', '') == '(i+1)' for e in sets):
        ctx.report('R07.8', 'index:count', 'src/simulationarchive.c', 'nblobs is not set to i+1 when snapshot i has been validated')
    db = pyfront.pydb()
    tree = db.files['rebound/simulationarchive.py']
    ok = False
    for node in ast.walk(tree):
        if isinstance(node, ast.If) and 'nblobs' in ast.unparse(node.test):
            n += 1
            t = ast.unparse(node.test).replace(' ', '')
            if t in ('self.nblobs<1', 'self.nblobs==0', 'self.nblobs<=0'):
                ok = True
    if not ok:
        ctx.report('R07.8', 'py:empty', 'rebound/simulationarchive.py Simulationarchive.__init__', 'Python no longer treats nblobs<1 as an empty archive')
    ctx.covered('R07.8', 'usable-archive decision: C keeps the archive iff nblobs>0 (warning) else error; Python empty test is the complement', n, floor=3)


def rule_python_messages(ctx):
    """R07.9: when an append is refused (unrecoverable tail, file cannot be opened) the C library only queues a message.
    Every branch of Simulation.save_to_file that calls one of the C save functions has to drain the queue
    (process_messages) afterwards, in its own or an enclosing statement list - otherwise the snapshot is lost silently."""
    import ast
    from .. import pyfront
    db = pyfront.pydb()
    tree = db.files['rebound/simulation.py']
    fn = None
    for node in ast.walk(tree):
        if isinstance(node, ast.ClassDef) and node.name == 'Simulation':
            for m_ in node.body:
                if isinstance(m_, ast.FunctionDef) and m_.name == 'save_to_file':
                    fn = m_
    anchor(fn is not None, 'Simulation.save_to_file')
    # C functions that (transitively) queue a message
    n = 0
    samples = []

    def is_pm(st):
        return any(isinstance(x, ast.Call) and isinstance(x.func, ast.Attribute) and x.func.attr == 'process_messages' for x in ast.walk(st))

    def scan(stmts, followed):
        """followed: a process_messages call comes later in an enclosing list"""
        nonlocal n
        for i, st in enumerate(stmts):
            later = followed or any(_unconditional_pm(s2) for s2 in stmts[i + 1:])
            if isinstance(st, ast.If):
                scan(st.body, later)
                scan(st.orelse, later)
                continue
            if isinstance(st, (ast.For, ast.While, ast.With, ast.Try)):
                scan(getattr(st, 'body', []), later)
                continue
            for x in ast.walk(st):
                if isinstance(x, ast.Call) and isinstance(x.func, ast.Attribute) and pyfront._name(x.func.value) == 'clibrebound' and x.func.attr.startswith('reb_simulation_save_to_file'):
                    n += 1
                    where = 'rebound/simulation.py:%d Simulation.save_to_file' % x.lineno
                    if not later:
                        ctx.report('R07.9', 'save_to_file:%s:messages' % x.func.attr, where,
                                   '%s is called but the message queue is not processed on this path: "No snapshot has been saved" / "Can not open file." never reach the user and the snapshot is lost silently' % x.func.attr)
                    else:
                        samples.append('%s: %s followed by process_messages()' % (where, x.func.attr))

    def _unconditional_pm(st):
        # a later statement counts only if it is executed whenever control reaches the end of this list
        return not isinstance(st, (ast.If, ast.For, ast.While, ast.Try, ast.With)) and is_pm(st)
    scan(fn.body, False)
    ctx.covered('R07.9', 'Python save_to_file: every call of a C save function is followed by process_messages on its path', n, floor=4, samples=samples[:4])


def _fit_test(op, lhs, rhs):
    """classification of a comparison that involves a file size (st_size): a region of `len` bytes at `pos` lies inside a
    file of S bytes iff pos + len <= S. Returns 'strict' for the off-by-one forms `pos+len < S` / `S > pos+len` used as an
    acceptance test, else None."""
    L, R = lhs.replace(' ', ''), rhs.replace(' ', '')
    if 'st_size' in R and 'st_size' not in L and '+' in L and op == '<':
        return 'strict'
    if 'st_size' in L and 'st_size' not in R and '+' in R and op == '>':
        return 'strict'
    return None


def rule_file_bounds(ctx):
    """R07.11: recovery code that walks the snapshot chain of an archive with absolute positions may bound them by the file
    size. A snapshot whose trailer ends exactly at the end of the file is complete (that is the normal case after a crash
    during the next append), so the acceptance test is `position + length <= size`; the strict form rejects the last intact
    snapshot and the next append overwrites it. The classifier is exercised on a built-in positive example on every run
    (the unchanged tree has no such test)."""
    anchor(_fit_test('<', '(pos_tail+size_tail)', 'buffer.st_size') == 'strict' and _fit_test('<=', '(pos_tail+size_tail)', 'buffer.st_size') is None, 'positive control of the file-bound classifier')
    n = 1
    for cfile in ('simulationarchive.c', 'input.c', 'output.c'):
        tu = cfront.load_tu(cfile)
        for fname in sorted(tu.funcs):
            fn = tu.func(fname)
            if cfront.body(fn) is None:
                continue
            for e in walk(cfront.body(fn)):
                if e.get('kind') == 'BinaryOperator' and e.get('opcode') in ('<', '>', '<=', '>='):
                    a, b = render(e['inner'][0]), render(e['inner'][1])
                    if 'st_size' in a or 'st_size' in b:
                        n += 1
                        if _fit_test(e['opcode'], a, b) == 'strict':
                            ctx.report('R07.11', '%s:filebound' % fname, 'src/%s:%s %s' % (cfile, line_of(e), fname),
                                       'the test %s accepts a region only if it ends strictly before the end of the file: a snapshot whose trailer ends exactly at EOF - the last intact one after an interrupted append - is rejected, and the next append overwrites it' % render(e))
    ctx.covered('R07.11', 'comparisons of position + length with the file size are non-strict (built-in positive control)', n, floor=1)


def rule_partial_reads(ctx):
    """R07.12: fread(buf, 1, n, f) returns the number of BYTES read, anything from 0 to n. Where the archive readers read a
    block byte-wise (element size 1, count not the literal 1) and then use the buffer, the result has to be compared with
    the count that was requested - a test against 0 or 1 lets a file that ends inside the block through with the rest of
    the buffer uninitialised. (Reads of one element of the full size return 0 or 1 and are covered by R07.3.)"""
    # Only the index scan reads a file of unknown length. reb_input_fields has the same byte-wise header read with a
    # `< 1` test, but it is entered only at offsets the index scan accepted (the 64 header bytes were already read in
    # full there) or on a complete in-memory copy, so a short read cannot be produced against it: observation, no report.
    n = 0
    for cfile in ('simulationarchive.c',):
        tu = cfront.load_tu(cfile)
        for fname in sorted(tu.funcs):
            fn = tu.func(fname)
            b = cfront.body(fn)
            if b is None:
                continue
            for e in walk(b):
                # result stored: v = fread(...), v += fread(...), T v = fread(...)
                tgt = call = None
                if is_assign(e) and e['opcode'] in ('=', '+='):
                    r0 = strip(e['inner'][1], casts=True)
                    if r0.get('kind') == 'CallExpr' and callee_name(r0) == 'fread':
                        tgt, call = render(e['inner'][0]), r0
                if e.get('kind') == 'VarDecl' and 'init' in e:
                    init = [c for c in e.get('inner', []) if c.get('kind') not in ('FullComment',)]
                    r0 = strip(init[-1], casts=True) if init else {}
                    if r0.get('kind') == 'CallExpr' and callee_name(r0) == 'fread':
                        tgt, call = e['name'], r0
                if call is None:
                    continue
                a = call_args(call)
                size_txt, cnt_txt = render(a[1]).replace(' ', ''), render(a[2]).replace(' ', '')
                if size_txt not in ('1', 'sizeof(char)', '(sizeof(char))') or cnt_txt in ('1',):
                    continue
                n += 1
                tests = [x for x in walk(b) if x.get('kind') == 'BinaryOperator' and x.get('opcode') in ('<', '<=', '==', '!=', '>', '>=')
                         and tgt in (render(x['inner'][0]), render(x['inner'][1]))]
                cnt_plain = cnt_txt.strip('()')
                good = [x for x in tests if cnt_plain in (render(x['inner'][0]).replace(' ', '').strip('()'), render(x['inner'][1]).replace(' ', '').strip('()'))]
                if tests and not good:
                    ctx.report('R07.12', '%s:partial:%s' % (fname, tgt), 'src/%s:%s %s' % (cfile, line_of(call), fname),
                               'fread(.., 1, %s, ..) returns a byte count, but its result %s is only tested as %s: a file that ends inside the block passes and the unread part of the buffer is used uninitialised'
                               % (cnt_txt, tgt, ', '.join(render(x) for x in tests[:2])))
    ctx.covered('R07.12', 'byte-wise reads whose result is stored are compared with the requested byte count', n, floor=1)


def run(ctx):
    from . import protocol
    protocol.rule_integrator_conjuncts(ctx, 'R07.13')    # restart options are taken from the integrator in use
    from . import edges
    edges.rule_snapshot_index(ctx, 'R06.13')         # exactly the completed snapshots can be loaded
    from . import c08
    c08.rule_final_snapshot_order(ctx)     # R08.10: the last snapshot of a run restarts with the full step size
    rule_partial_reads(ctx)
    rule_file_bounds(ctx)
    rule_python_messages(ctx)
    from . import alloczero
    alloczero.rule_zeroed_records(ctx, 'R07.10')
    rule_ownership(ctx)
    rule_error_path_state(ctx)
    rule_io_discipline(ctx)
    rule_python_raises(ctx)
    rule_warning_table(ctx)
    rule_cadence_persisted(ctx)
    rule_usable_condition(ctx)
    c06.rule_append_protocol(ctx)     # R06.2 (iii): check and repair of the tail before appending
    c06.rule_cadence(ctx)             # R06.5: a restart neither skips nor duplicates snapshots
    ctx.not_decided.append('every byte offset at which a write can be cut; repeated crash/restart cycles; identity of the restarted archive with the uninterrupted one (runtime)')
