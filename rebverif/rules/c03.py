"""C03 - Kepler propagation is exact: thin static necessary conditions (dimensional homogeneity, loop bounds, tables)."""
import re

from ..core import AnalysisError, anchor
from .. import cfront
from ..cfront import walk, strip, render, line_of, is_assign, callee_name, call_args, qtype
from . import e9, tables
from .e9 import D, T_, GM_, ONE, M_

SOLVER = 'reb_whfast_kepler_solver'
# call sites of the scalar solver: (file, function) -> reason the mass parameter may lack G (None = must be G*mass)
CALLERS = {
    ('integrator_whfast.c', 'reb_whfast_kepler_step'): None,
    ('integrator_mercurius.c', 'reb_integrator_mercurius_kepler_step'): None,
    ('integrator_trace.c', 'reb_integrator_trace_whfast_step'): None,
    ('integrator_whfast512.c', 'reb_integrator_whfast512_synchronize_fallback'): 'WHFast512 refuses to run unless G == 1 (checked in its part1), so m0 is G*m0',
}
# loops of the solver and its helpers that are not bounded by a compile-time constant: why they terminate
LOOP_REASONS = {
    ('stumpff_cs', 'while'): 'argument halving: |z| is divided by 4 until <= 0.1; guarded by isfinite(z) so that an infinite argument leaves at once',
    ('stumpff_cs3', 'while'): 'argument halving, same guard',
    ('stumpff_cs', 'for-n'): 'undoes the n halvings counted by the loop above (n decreases to 0)',
    ('stumpff_cs3', 'for-n'): 'undoes the n halvings counted by the loop above',
    (SOLVER, 'do'): 'bisection: the bracket halves every iteration until its relative width is below 1e-15',
    (SOLVER, 'for-var'): 'loop over the variational configurations (N_var_config is finite)',
}


def rule_scope(ctx):
    """R03.2 scope fact: the scalar solver and exactly the known callers (a new implementation or caller changes the scope
    of R03.3/R03.4 and must be looked at: analysis error, not a violation)."""
    tus = cfront.load_tus()
    callers = set()
    n = 0
    for cfile, tu in tus.items():
        for fname, fn in tu.funcs.items():
            if cfront.basename(fn.get('_locfile') or fn.get('_file')) != cfile:
                continue
            for e in walk(cfront.body(fn)):
                if e.get('kind') == 'CallExpr' and callee_name(e) == SOLVER:
                    callers.add((cfile, fname))
                    n += 1
    known = {k for k in CALLERS if k[0] != 'integrator_whfast512.c'}   # the AVX512 fallback only exists in the AVX512 configuration
    extra = callers - set(CALLERS)
    if extra:
        raise AnalysisError('R03.2: new caller(s) of %s: %s - the scope of the Kepler mass-parameter rule changed' % (SOLVER, sorted(extra)))
    missing = known - callers
    if missing:
        raise AnalysisError('R03.2: expected caller(s) of %s not found: %s' % (SOLVER, sorted(missing)))
    ctx.covered('R03.2', 'call sites of the one scalar universal-variable solver (scope of R03.3)', n, floor=6, samples=[str(sorted(callers))])
    return callers


def rule_mass_parameter(ctx, callers):
    n = 0
    samples = []
    for (cfile, fname) in sorted(callers):
        tu = cfront.load_tu(cfile)
        fn = tu.func(fname)
        t = e9.Typer(fn, params={'_dt': T_, 'dt': T_}, callee_params={SOLVER: [None, None, GM_, None, T_]}).run()
        sites = [e for e in walk(cfront.body(fn)) if e.get('kind') == 'CallExpr' and callee_name(e) == SOLVER]
        n += len(sites)
        for c in t.conflicts:
            line, what, a, b, txt = c
            if CALLERS.get((cfile, fname)):
                ctx.note('R03.3 %s: %s (%s vs %s) - frozen exception: %s' % (fname, what, a, b, CALLERS[(cfile, fname)]))
                continue
            ctx.report('R03.3', 'kepler-mass:%s:%s' % (fname, txt[:30]), 'src/%s:%s %s' % (cfile, line, fname),
                       'dimension clash in %s: %s vs %s (%s): the Kepler mass parameter must be G times a mass (L^3/T^2) - invisible to tests that run with G=1' % (what, a, b, txt))
        samples.append('%s: %d call site(s), %d operations typed' % (fname, len(sites), t.checked))
    ctx.covered('R03.3', 'mass-parameter argument of every call of the scalar Kepler solver has dimension L^3 T^-2 (one factor G, one mass)', n, floor=6, samples=samples)


def rule_solver_homogeneity(ctx):
    tu = cfront.load_tu('integrator_whfast.c')
    n = 0
    samples = []
    arr = {('Gs', k): D(-k, k, 0) for k in range(6)}
    fn = tu.func(SOLVER)
    t = e9.Typer(fn, params={'M': GM_, '_dt': T_}, arrays=arr).run()
    n += t.checked
    for line, what, a, b, txt in t.conflicts:
        ctx.report('R03.5', 'solver:dim:%s' % txt[:40], 'src/integrator_whfast.c:%s %s' % (line, SOLVER),
                   'dimension clash in %s: %s vs %s in "%s": the universal-variable formulas are homogeneous in (L,T) only with the right powers of the mass parameter' % (what, a, b, txt))
    samples.append('%s: %d operations typed, %d not inferable' % (SOLVER, t.checked, t.unknown))
    # Stiefel functions: Gs[k] = X^k c_k(beta X^2): the argument of the Stumpff series is dimensionless
    for fname in ('stiefel_Gs', 'stiefel_Gs3'):
        fn = tu.func(fname)
        t2 = e9.Typer(fn, params={'beta': D(2, -2, 0), 'X': D(-1, 1, 0)}, callee_params={'stumpff_cs': [None, ONE], 'stumpff_cs3': [None, ONE]}).run()
        n += t2.checked
        for line, what, a, b, txt in t2.conflicts:
            ctx.report('R03.5', '%s:dim:%s' % (fname, txt[:30]), 'src/integrator_whfast.c:%s %s' % (line, fname), 'dimension clash in %s: %s vs %s (%s)' % (what, a, b, txt))
        # Gs[k] *= X^k
        pw = {}
        env = {'X': 1}
        for st in cfront.body(fn).get('inner', []):
            if st.get('kind') == 'DeclStmt':
                for d in st['inner']:
                    init = [c for c in d.get('inner', []) if c.get('kind') not in ('FullComment',)]
                    if init and 'init' in d:
                        env[d['name']] = _xpow(init[-1], env)
            s = strip(st)
            if is_assign(s) and s['opcode'] == '*=':
                lv = render(s['inner'][0])
                m = re.match(r'^Gs\[(\d)\]$', lv)
                if m:
                    pw[int(m.group(1))] = _xpow(s['inner'][1], env)
                elif lv in env:
                    env[lv] = (env[lv] or 0) + (_xpow(s['inner'][1], env) or 0)
        for k, p in sorted(pw.items()):
            n += 1
            if p != k:
                ctx.report('R03.5', '%s:power:%d' % (fname, k), 'src/integrator_whfast.c %s' % fname, 'Gs[%d] is multiplied by X^%s instead of X^%d' % (k, p, k))
        samples.append('%s: Gs[k] *= X^k for k=%s' % (fname, sorted(pw)))
    ctx.covered('R03.5', 'dimensional homogeneity of the universal-variable solver (every +, -, comparison of quantities and function argument) and the powers of X in the Stiefel functions', n, floor=120, samples=samples)


def _xpow(node, env):
    """power of X denoted by a product of X, X2, _pow ... (None if not a pure power)"""
    node = strip(node)
    k = node.get('kind')
    if k == 'DeclRefExpr':
        return env.get(node['referencedDecl']['name'])
    if k == 'BinaryOperator' and node['opcode'] == '*':
        a, b = _xpow(node['inner'][0], env), _xpow(node['inner'][1], env)
        return None if a is None or b is None else a + b
    return None


def rule_loops(ctx):
    """R03.4: every loop of the solver and its helpers is bounded by a compile-time constant or carries a stated
    termination argument whose syntactic guard is present. Loops are recognised by what they do (their exit test and the
    variable they drive), not by the keyword they are written with."""
    tu = cfront.load_tu('integrator_whfast.c')
    n = 0
    samples = []
    REASONS = {
        'halving': 'argument halving: |z| is divided by 4 until <= 0.1; guarded by isfinite(z) so that an infinite argument leaves at once',
        'countdown': 'undoes the n halvings counted by the loop above (n decreases to 0)',
        'bisection': 'bisection: the bracket halves every iteration until its relative width is below 1e-15',
        'var': 'loop over the variational configurations (N_var_config is finite)',
    }
    for fname in ('stumpff_cs', 'stumpff_cs3', 'stiefel_Gs', 'stiefel_Gs3', SOLVER):
        fn = tu.func(fname)
        for loop in walk(cfront.body(fn)):
            k = loop.get('kind')
            if k not in ('ForStmt', 'WhileStmt', 'DoStmt'):
                continue
            n += 1
            where = 'src/integrator_whfast.c:%s %s' % (line_of(loop), fname)
            if k == 'ForStmt':
                cn = loop['inner'][2]
                body_ = loop['inner'][-1]
            elif k == 'WhileStmt':
                cn, body_ = loop['inner'][0], loop['inner'][1]
            else:
                cn, body_ = loop['inner'][1], loop['inner'][0]
            cond = render(cn).replace(' ', '') if cn and cn.get('kind') else ''
            # exit tests that sit in the body as `if (..) break;` (for(;;) spelling)
            breaks = [render(x['inner'][0]).replace(' ', '') for x in walk(body_) if x.get('kind') == 'IfStmt'
                      and any(y.get('kind') == 'BreakStmt' for y in walk(x['inner'][1]))]
            tests = cond + ' ' + ' '.join(breaks)
            m = re.match(r'^\((\w+)(<|<=|>|>=)(\(?-?\d+\)?|\w+)\)$', cond)
            const_bound = False
            if m and k == 'ForStmt':
                b = m.group(3).strip('()')
                if re.match(r'^-?\d+$', b) and b != '0':
                    const_bound = True
                else:
                    for d in walk(cfront.body(fn)):
                        if d.get('kind') == 'VarDecl' and d.get('name') == b and 'init' in d:
                            init = [c for c in d.get('inner', []) if c.get('kind') not in ('FullComment',)]
                            if init and strip(init[-1]).get('kind') == 'IntegerLiteral':
                                const_bound = True
                    if b in ('n_lag',):
                        const_bound = True
            if not const_bound:
                # counted loop in any spelling: a conjunct `v < B` with v an integer counter that the loop only increments
                # and B a compile-time constant after resolving locals
                from . import extents
                L_ = extents.lets(fn)
                conj = [c_.strip('()') for c_ in re.split(r'&&', cond.strip('()'))] if cond else []
                for c_ in conj:
                    m2 = re.match(r'^(\w+)(<|<=)(\w+|\d+)$', c_.replace('(', '').replace(')', ''))
                    if not m2:
                        continue
                    v_, b_ = m2.group(1), m2.group(3)
                    bound_txt = extents.canon(extents.resolve(b_, L_))
                    if not (re.match(r'^\d+$', bound_txt) or bound_txt in ('n_lag',)):
                        continue
                    incs = [x for x in walk(loop) if x.get('kind') == 'UnaryOperator' and x.get('opcode') == '++' and render(x['inner'][0]) == v_]
                    others = [x for x in walk(body_) if is_assign(x) and render(x['inner'][0]) == v_ and not (x['opcode'] == '+=' and render(x['inner'][1]) == '1')]
                    if incs and not others:
                        const_bound = True
            if const_bound:
                samples.append('%s: %s (constant bound)' % (where, cond))
                continue
            if 'N_var_config' in tests:
                kind = 'var'
            elif 'X_max-X_min' in tests or 'X_max' in tests and 'X_min' in tests:
                kind = 'bisection'
                if 'X_max-X_min' not in tests:
                    ctx.report('R03.4', 'loop:%s:do:cond' % fname, where, 'the bisection loop no longer terminates on the bracket width (%s)' % tests)
            elif re.search(r'fastabs\(z\)>|fabs\(z\)>|\(z\)>0\.1', tests) or ('0.1' in tests and 'z' in tests):
                kind = 'halving'
                if 'isfinite' not in tests:
                    ctx.report('R03.4', 'loop:%s:while:guard' % fname, where,
                               'the argument-halving loop "%s" has no finiteness guard: for z = +-inf (Newton overshoot on a hyperbolic orbit) z/4 stays infinite and the step never terminates' % tests.strip())
            elif re.search(r'\(n>0\)|\(n!=0\)|\(0<n\)', tests) or (k != 'ForStmt' and re.search(r'\bn\b', tests)):
                kind = 'countdown'
            else:
                raise AnalysisError('R03.4: loop at %s (%s) has no constant bound and no recorded termination argument - a human reason is needed' % (where, tests.strip()))
            samples.append('%s: %s - %s' % (where, kind, REASONS[kind]))
    ctx.covered('R03.4', 'loops of the Kepler solver and Stumpff/Stiefel helpers: constant bound, or recorded termination argument with its guard present', n, floor=11, samples=samples[:6])


def rule_bisection_nan(ctx):
    """R03.6: the bisection fallback halves a bracket [X_min, X_max] on the sign of s(X) = r0 X + eta0 G2 + zeta0 G3 - dt.
    On hyperbolic orbits the Stiefel functions grow like exp(sqrt(-beta) X) and overflow to inf - inf = NaN far beyond the
    root (the initial bracket reaches dt/q). A NaN fails `s >= 0` and is silently treated as "root is above X": the bracket
    collapses onto X_max, the solver returns NaN and the caller substitutes straight-line motion. The decision must treat a
    non-finite s explicitly (s is monotonic in X, so a NaN means X is too far out)."""
    tu = cfront.load_tu('integrator_whfast.c')
    fn = tu.func(SOLVER)
    n = 0
    samples = []
    for loop in walk(cfront.body(fn)):
        if loop.get('kind') not in ('DoStmt', 'WhileStmt', 'ForStmt'):
            continue
        body_ = loop['inner'][0] if loop.get('kind') == 'DoStmt' else loop['inner'][-1]
        for ifs in walk(body_):
            if ifs.get('kind') != 'IfStmt':
                continue
            c = strip(ifs['inner'][0])
            if c.get('kind') != 'BinaryOperator' or c['opcode'] not in ('>=', '>', '<', '<='):
                continue
            assigns = [render(a['inner'][0]) for a in walk(ifs) if is_assign(a)]
            if not ({'X_max', 'X_min'} <= set(assigns)):
                continue
            n += 1
            var = render(c['inner'][0])
            guarded = any(x.get('kind') == 'CallExpr' and callee_name(x) in ('isnan', '__builtin_isnan', 'isfinite', '__builtin_isfinite', 'isinf', '__builtin_isinf', '__builtin_isinf_sign')
                          and var in render(x) for x in walk(body_))
            where = 'src/integrator_whfast.c:%s %s' % (line_of(ifs), SOLVER)
            if not guarded:
                ctx.report('R03.6', 'bisection:nan-blind', where,
                           'the bracket update "if (%s) X_max = X; else X_min = X;" takes the else branch when %s is NaN (overflow of the Stiefel functions for hyperbolic orbits and long steps): '
                           'the bracket collapses onto X_max and the step degenerates to straight-line motion' % (render(c), var))
            else:
                samples.append('%s: non-finite %s handled before the bracket update' % (where, var))
    anchor(n >= 1, 'bracket update of the bisection fallback in %s' % SOLVER)
    ctx.covered('R03.6', 'bisection fallback of the Kepler solver decides on a finite value (a NaN from overflowing Stiefel functions is handled explicitly)', n, floor=1, samples=samples)


def rule_split_mass_agreement(ctx, rule='R03.7'):
    """R03.7: a Wisdom-Holman splitting that lets the Kepler step attract with a central mass M which is not the physical
    one has to give the difference back in the kick: the interaction step of that coordinate system adds +G M x/|x|^3.
    The two sites must name the same M (per case of the switch over ri_whfast.coordinates); otherwise the sum of drift and
    kick is not the N-body Hamiltonian and the energy error has a floor that does not shrink with dt."""
    from . import extents
    tu = cfront.load_tu('integrator_whfast.c')
    kep, kick = tu.func('reb_whfast_kepler_step'), tu.func('reb_whfast_interaction_step')

    def cases(fn):
        out = {}
        for sw in walk(cfront.body(fn)):
            if sw.get('kind') != 'SwitchStmt':
                continue
            body = sw['inner'][-1]
            cur = None
            for st in body.get('inner', []):
                node = st
                while node.get('kind') in ('CaseStmt', 'DefaultStmt'):
                    if node.get('kind') == 'CaseStmt':
                        lab = [x for x in walk(node['inner'][0]) if x.get('kind') == 'DeclRefExpr' and x.get('referencedDecl', {}).get('kind') == 'EnumConstantDecl']
                        cur = lab[0]['referencedDecl']['name'] if lab else None
                    else:
                        cur = None
                    node = node['inner'][-1]
                if cur:
                    out.setdefault(cur, []).append(node)
        # the same selection written as an if / else-if chain over `<coordinates> == CONSTANT`
        for ifs in walk(cfront.body(fn)):
            if ifs.get('kind') != 'IfStmt':
                continue
            c = strip(ifs['inner'][0])
            if c.get('kind') == 'BinaryOperator' and c.get('opcode') == '==':
                for side in c['inner']:
                    side = strip(side, casts=True)
                    if side.get('kind') == 'DeclRefExpr' and side.get('referencedDecl', {}).get('kind') == 'EnumConstantDecl' and 'COORDINATES' in side['referencedDecl']['name']:
                        out.setdefault(side['referencedDecl']['name'], []).append(ifs['inner'][1])
        return out

    def canon(txt, L):
        return extents.canon(extents.resolve(txt, L))

    def mass_factor(e, L, Gnames):
        """M of a product G*M (either order), rendered with locals resolved; None if e is not such a product"""
        e = strip(e, casts=True)
        if e.get('kind') == 'BinaryOperator' and e['opcode'] == '*':
            a, b = strip(e['inner'][0], casts=True), strip(e['inner'][1], casts=True)
            for g, m in ((a, b), (b, a)):
                if canon(render(g), L) in Gnames:
                    return m
        return None
    Lk, Li = extents.lets(kep), extents.lets(kick)
    Gn = {'r.G'}
    kc, ic = cases(kep), cases(kick)
    anchor(len(kc) >= 4 and len(ic) >= 4, 'switch over the coordinate systems in the Kepler and interaction steps')
    n = 0
    samples = []
    for const in sorted(ic):
        # compensation terms of the kick: locals initialised as G*M/(cube of a distance)
        comp = []
        for st in ic[const]:
            for d in walk(st):
                if d.get('kind') == 'VarDecl' and 'init' in d:
                    init = [c for c in d.get('inner', []) if c.get('kind') not in ('FullComment',)]
                    if not init:
                        continue
                    i0 = strip(init[-1], casts=True)
                    if i0.get('kind') == 'BinaryOperator' and i0['opcode'] == '/':
                        m = mass_factor(i0['inner'][0], Li, Gn)
                        if m is not None:
                            comp.append((canon(render(m), Li), line_of(d)))
        if not comp:
            continue
        # central mass of the Kepler step in the same case: G*eta with eta as last assigned in the case
        last = {}
        last_node = {}
        masses = []
        for st in kc.get(const, []):
            for e in walk(st):
                if cfront.is_assign(e) and e['opcode'] == '=' and strip(e['inner'][0]).get('kind') == 'DeclRefExpr':
                    last[render(e['inner'][0])] = render(e['inner'][1])
                    last_node[render(e['inner'][0])] = e['inner'][1]
                if e.get('kind') == 'CallExpr' and callee_name(e) == SOLVER:
                    arg = call_args(e)[2]
                    m = mass_factor(arg, Lk, Gn)
                    if m is not None:
                        txt = render(m)
                        masses.append((canon(last.get(txt, txt), Lk), line_of(e)))
                    else:
                        # the gravitational parameter is handed over ready-made: G*M with M read off its last assignment
                        txt = render(arg)
                        node = last_node.get(txt)
                        if node is None:
                            for d in walk(cfront.body(kep)):
                                if d.get('kind') == 'VarDecl' and d.get('name') == txt and 'init' in d:
                                    node = [c for c in d.get('inner', []) if c.get('kind') not in ('FullComment',)][-1]
                        m2 = mass_factor(node, Lk, Gn) if node is not None else None
                        masses.append((canon(render(m2), Lk) if m2 is not None else '(%s)/G' % canon(render(node) if node is not None else txt, Lk), line_of(e)))
        anchor(masses, 'Kepler step of %s calls the solver with G times a mass' % const)
        for cm, cl in comp:
            n += 1
            if not any(cm == km for km, _ in masses):
                ctx.report(rule, 'split-mass:%s' % const, 'src/integrator_whfast.c:%s reb_whfast_interaction_step' % cl,
                           'under %s the kick gives back G*%s*x/|x|^3, but the Kepler step (line %s) attracts with G*%s: the two halves of the splitting no longer add up to the N-body Hamiltonian'
                           % (const, cm, masses[0][1], masses[0][0]))
            else:
                samples.append('%s: kick compensates G*%s, Kepler step attracts with the same mass' % (const, cm))
    ctx.covered(rule, 'coordinate systems whose kick compensates the central attraction of the Kepler step: same mass at both sites', n, floor=1, samples=samples)


def rule_bracket_swap(ctx):
    """R03.8: the bisection fallback of the Kepler solver brackets the root between two values that are averaged; for a
    negative step the bracket is mirrored, so the code exchanges its ends. The exchange consists of copies only and is
    evaluated on the order domain: afterwards the two ends must hold each other's former value (a swap without a
    temporary leaves both ends equal: the bracket has zero width and the step lands at the wrong place)."""
    from . import orders
    from .. import normal
    tu = cfront.load_tu('integrator_whfast.c')
    fns = normal.with_new_helpers(tu, SOLVER)      # the solver and helpers split off from it (bisection in its own function)

    def plain(x):
        """name of an end: X_min, or *X_min where the bracket is handed out through pointers"""
        x = strip(x, casts=True)
        if x.get('kind') == 'UnaryOperator' and x.get('opcode') == '*':
            x = strip(x['inner'][0], casts=True)
        return x['referencedDecl']['name'] if x.get('kind') == 'DeclRefExpr' else None
    n = 0
    found_mid = False
    for fn in fns:
        ends = None
        for e in walk(cfront.body(fn)):
            if is_assign(e) and e['opcode'] == '=' or e.get('kind') == 'VarDecl' and 'init' in e:
                src = e['inner'][1] if is_assign(e) else [c for c in e.get('inner', []) if c.get('kind') not in ('FullComment',)][-1]
                r0 = strip(src, casts=True)
                if r0.get('kind') == 'BinaryOperator' and r0['opcode'] == '/':
                    num = strip(r0['inner'][0], casts=True)
                    if num.get('kind') == 'BinaryOperator' and num['opcode'] == '+' and all(strip(x, casts=True).get('kind') == 'DeclRefExpr' for x in num['inner']) and render(r0['inner'][1]) in ('2.', '2.0', '2'):
                        ends = tuple(strip(x, casts=True)['referencedDecl']['name'] for x in num['inner'])
        if ends is not None:
            found_mid = True
        # candidate names of the two ends in this function: the averaged locals, or pointer parameters written through
        names = set(ends or ())
        for e in walk(cfront.body(fn)):
            if is_assign(e):
                l0 = strip(e['inner'][0], casts=True)
                if l0.get('kind') == 'UnaryOperator' and l0.get('opcode') == '*' and plain(l0):
                    names.add(plain(l0))
        if len(names) < 2:
            continue
        for ifs in walk(cfront.body(fn)):
            if ifs.get('kind') != 'IfStmt':
                continue
            cond = render(ifs['inner'][0]).replace(' ', '')
            if not re.match(r'^\(\w*dt<0(\.0?)?\)$', cond):
                continue
            # idiom 1: `if (dt<0) { exchange }` made of copies
            if len(ifs['inner']) == 2:
                written = {plain(e['inner'][0]) for e in walk(ifs['inner'][1]) if is_assign(e)}
                local = {d['name'] for d in walk(ifs['inner'][1]) if d.get('kind') == 'VarDecl'}
                if not (written & names) or not written <= names | local:
                    continue
                two = sorted(written & names)
                if len(two) != 2:
                    continue
                n += 1
                env = {two[0]: 1.0, two[1]: 2.0}
                try:
                    orders.run(ifs['inner'][1], env)
                except orders.Unsupported as ex:
                    raise AnalysisError('R03.8: the bracket exchange at src/integrator_whfast.c:%s is no longer made of copies (%s)' % (line_of(ifs), ex))
                if (env[two[0]], env[two[1]]) != (2.0, 1.0):
                    ctx.report('R03.8', 'bisection:swap', 'src/integrator_whfast.c:%s %s' % (line_of(ifs), fn['name']),
                               'under %s the bracket ends (%s, %s) = (1, 2) become (%g, %g) instead of being exchanged: the bracket collapses and the bisection returns its end point'
                               % (render(ifs['inner'][0]), two[0], two[1], env[two[0]], env[two[1]]))
            # idiom 2: `if (dt<0) { min = A; max = B; } else { min = B; max = A; }` - the branches are mirror images
            elif len(ifs['inner']) == 3:
                br = []
                for blk in ifs['inner'][1:]:
                    m_ = {}
                    for e in walk(blk):
                        if is_assign(e) and e['opcode'] == '=' and plain(e['inner'][0]) in names:
                            m_[plain(e['inner'][0])] = render(e['inner'][1]).replace(' ', '')
                    br.append(m_)
                if not br[0] or set(br[0]) != set(br[1]) or len(br[0]) != 2:
                    continue
                n += 1
                k1, k2 = sorted(br[0])
                if not (br[0][k1] == br[1][k2] and br[0][k2] == br[1][k1] and br[0][k1] != br[0][k2]):
                    ctx.report('R03.8', 'bisection:swap', 'src/integrator_whfast.c:%s %s' % (line_of(ifs), fn['name']),
                               'the bracket ends for a negative step (%s) are not the exchanged ends of the positive step (%s): the bracket is not mirrored'
                               % (br[0], br[1]))
    anchor(found_mid, 'bisection midpoint X = (X_max + X_min)/2 in the Kepler solver')
    ctx.covered('R03.8', 'bracket exchanges of the bisection fallback (negative step) evaluated on the order domain', n, floor=1)


def run(ctx):
    from . import c09 as _c09b
    _c09b.rule_equivalence(ctx)     # R09.1: the Kepler drifts of a deferred run add up to those of safe mode (the two-body problem is propagated over the full step)
    from . import edges
    edges.rule_threshold_siblings(ctx, 'R01.13')     # one quantity, one literal, one line: SABACM1 is a corrector type in part1, part2 and synchronize
    rule_bisection_nan(ctx)
    tables.rule_tables(ctx, 'R03.1')
    callers = rule_scope(ctx)
    rule_mass_parameter(ctx, callers)
    rule_solver_homogeneity(ctx)
    rule_loops(ctx)
    from . import c02
    c02.rule_pair_domains(ctx)     # R02.8: the term solved by the Kepler step (gravity_ignore_terms) is left out of the kick exactly once
    rule_bracket_swap(ctx)
    rule_split_mass_agreement(ctx)
    from . import c09
    c09.rule_cache_invalidation(ctx)   # R09.10: the Jacobi/heliocentric copy the Kepler step advances is refreshed whenever the particles changed
    c09.rule_exact_finish(ctx)         # R09.11
    c09.rule_keep_unsynchronized(ctx)   # R09.3/R09.9: the state handed back by a synchronise is the synchronised one
    ctx.not_decided.append('exactness of the propagation to rounding error; correctness of the Newton/quartic/bisection selection; NaN freedom for all finite input; agreement of the AVX512 solver with the scalar one')
