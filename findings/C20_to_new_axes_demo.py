import rebound, math, itertools
bad = []
def check(newz, newx):
    q = rebound.Rotation.to_new_axes(newz=newz, newx=newx)
    z = q * newz
    nz = math.sqrt(sum(c*c for c in newz))
    err = math.sqrt((z[0])**2 + (z[1])**2 + (z[2]-nz)**2)
    x = q * newx
    nx = math.sqrt(sum(c*c for c in newx))
    errx = math.sqrt((x[0]-nx)**2 + x[1]**2 + x[2]**2)
    n2 = q.ix**2+q.iy**2+q.iz**2+q.r**2
    if err > 1e-9 or errx > 1e-9 or abs(n2-1) > 1e-12:
        bad.append((newz, newx, [round(c,6) for c in z], [round(c,6) for c in x], n2))
axes = [[1,0,0],[-1,0,0],[0,1,0],[0,-1,0],[0,0,1],[0,0,-1]]
for a in axes:
    for b in axes:
        if abs(sum(i*j for i,j in zip(a,b))) < 1e-12:
            check([float(c) for c in a],[float(c) for c in b])
for b_ in bad: print(b_)
print(len(bad), "bad of", 24)
import rebound
q = rebound.Rotation.to_new_axes(newz=[0,0,2.], newx=[1.,0,1.])
print("newz=[0,0,2], newx=[1,0,1]  -> q*newz =", [round(c,6) for c in q*[0,0,2.]], " q*[1,0,0] =", [round(c,6) for c in q*[1.,0,0]])
q = rebound.Rotation.to_new_axes(newz=[0,0,1.], newx=[1.,0,1.])
print("newz=[0,0,1], newx=[1,0,1]  -> q*newz =", [round(c,6) for c in q*[0,0,1.]])
q = rebound.Rotation.to_new_axes(newz=[1.,0,0], newx=[0,0,1.])
print("newz=[1,0,0], newx=[0,0,1]  -> q*newz =", [round(c,6) for c in q*[1.,0,0]], " q*newx =", [round(c,6) for c in q*[0,0,1.]])
