import rebound, os, ctypes, sys
from rebound import clibrebound
fn='/tmp/probe/crash.sa'
if os.path.exists(fn): os.remove(fn)
sim=rebound.Simulation(); sim.add(m=1.); sim.add(m=1e-3,a=1.); sim.save_to_file(fn)
cut=int(sys.argv[1]) if len(sys.argv)>1 else 100
with open(fn,'r+b') as f: f.truncate(cut)
# dirty the heap so that malloc does not hand out zeroed memory
junk=[ctypes.create_string_buffer(b'\xab'*s) for s in (56,64,72,80,96,128)*50]; del junk
clibrebound.reb_simulation_create_from_file.restype=ctypes.c_void_p
p=clibrebound.reb_simulation_create_from_file(ctypes.c_char_p(fn.encode()), ctypes.c_int64(0))
print('returned', p)
