import rebound, os
fn='/tmp/probe/saba.sa'
if os.path.exists(fn): os.remove(fn)
sim=rebound.Simulation()
sim.add(m=1); sim.add(m=1e-3,a=1); sim.add(m=1e-3,a=2.3,e=0.1)
sim.integrator='saba'; sim.dt=0.05
sim.ri_saba.safe_mode=0
sim.save_to_file(fn, step=10)
sim.integrate(5, exact_finish_time=0)
sa=rebound.Simulationarchive(fn)
s2=sa.getSimulation(sa[2].t)
print('picked', s2.t, s2.ri_whfast.keep_unsynchronized, s2.ri_whfast.safe_mode, s2.ri_saba.keep_unsynchronized)
try:
    s2.integrate(5, exact_finish_time=0)
    print('continued to', s2.t)
except Exception as e:
    print('ERROR', type(e).__name__, e)
