import rebound, math, warnings
def mk(integ, lres):
    sim=rebound.Simulation()
    sim.add(m=1.)
    sim.add(m=1e-3,a=1.,e=0.05)
    sim.add(m=1e-3,a=1.35,e=0.06,f=1.)   # chaotic-ish
    sim.add(m=1e-3,a=1.8,e=0.05,f=2.)
    sim.move_to_com()
    sim.integrator=integ
    if integ=='whfast': sim.dt=0.05
    v=sim.add_variation()
    v.particles[1].x=1.
    if lres<0: v.lrescale=-1
    return sim,v
for integ in ('ias15','whfast'):
    with warnings.catch_warnings(record=True) as w:
        warnings.simplefilter('always')
        A,va=mk(integ,0); B,vb=mk(integ,-1)
        # blow up the variation artificially so that rescaling triggers soon
        for s,v in ((A,va),(B,vb)):
            for p in v.particles:
                p.x*=3e99; p.y*=3e99; p.vx*=3e99; p.vy*=3e99
        out=[]
        for t in (50,100,150,200,300):
            A.integrate(t); B.integrate(t)
            la=math.log10(max(abs(p.x) for p in va.particles))+va.lrescale/math.log(10)
            lb=math.log10(max(abs(p.x) for p in vb.particles))
            dx=max(abs(p.x-q.x) for p,q in zip(A.particles[:4],B.particles[:4]))
            out.append('t=%d A:%.3f B:%.3f lres=%.1f dreal=%.1e'%(t,la,lb,va.lrescale,dx))
        print(integ); print('\n'.join(out)); print('warnings:',[str(x.message)[:70] for x in w])
