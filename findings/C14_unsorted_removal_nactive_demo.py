import rebound
sim=rebound.Simulation()
sim.add(m=1.)
sim.add(m=1e-3,a=1.)
sim.add(m=2e-3,a=2.)
sim.add(m=3e-3,a=3.)          # carries mass but is a test particle below
sim.N_active=3
sim.integrator='none'; sim.gravity='basic'
def acc_on_star(s):
    s.update_acceleration() if hasattr(s,'update_acceleration') else None
    p=s.particles[0]; return (p.ax,p.ay)
import ctypes
from rebound import clibrebound
def accel(s):
    clibrebound.reb_simulation_update_acceleration(ctypes.byref(s))
    p=s.particles[0]; return (p.ax,p.ay)
print('before: N=%d N_active=%d acc(star)=%s'%(sim.N,sim.N_active,accel(sim)))
sim.remove(1, keep_sorted=False)     # an ACTIVE particle is removed; the last particle (a test particle) is moved into slot 1
print('after removing active particle 1 unsorted: N=%d N_active=%d (documented adjustment: N_active 2)'%(sim.N,sim.N_active))
print('   slot 1 now holds the former test particle m=%g, treated as active: acc(star)=%s'%(sim.particles[1].m, accel(sim)))
exp=rebound.Simulation(); exp.add(m=1.); exp.add(m=2e-3,a=2.); exp.add(m=3e-3,a=3.); exp.N_active=2; exp.integrator='none'
print('   expected (one active planet left, m=3e-3 body is a test particle): acc(star)=%s'%(accel(exp),))
sim.remove(1, keep_sorted=False)
print('after a second unsorted removal: N=%d N_active=%d  -> N_active > N: force loops run over a slot beyond N'%(sim.N,sim.N_active))
