import rebound, random
def run(collision, sign, seed):
    rnd = random.Random(seed)
    sim = rebound.Simulation()
    sim.integrator = "leapfrog"
    sim.dt = 0.05*sign
    sim.gravity = "none"
    sim.collision = collision
    sim.collision_resolve = "merge"
    sim.configure_box(40.)
    sim.add(m=1., r=0.01, x=-2.013, vx= 10.*sign, y=0.3, z=0.2)
    sim.add(m=1., r=0.01, x= 2.0, vx=-10.*sign, y=0.3, z=0.2)
    for k in range(300):     # slow, tiny bystanders that refine the tree along the track
        sim.add(m=1e-6, r=1e-5, x=rnd.uniform(-3, 3), y=rnd.uniform(-1, 1.6), z=rnd.uniform(-1, 1.4))
    for k in range(12):
        try:
            sim.step()
        except RuntimeError:
            pass
    return 1 if any(abs(p.m-2.) < 1e-3 for p in sim.particles) else 0
tot = {}
for seed in range(10):
    for coll in ("line", "linetree"):
        for sign in (+1, -1):
            tot[(coll, sign)] = tot.get((coll, sign), 0) + run(coll, sign, seed)
for coll in ("line", "linetree"):
    print("%-9s set-ups (of 10) in which the two fast spheres merged: forward %d, backward %d" % (coll, tot[(coll, 1)], tot[(coll, -1)]))
