import rebound, math
def mk():
    sim=rebound.Simulation()
    sim.add(m=1)
    sim.add(m=1e-3,a=1.0,e=0.995,f=2.5)
    sim.move_to_com()
    return sim
T=2*math.pi*0.7
for mode in ('FULL_BS','FULL_IAS15','PARTIAL_BS'):
    errs=[]
    for dt in (0.08,0.04,0.02,0.01):
        n=round(T/dt)
        ref=mk(); ref.integrator='ias15'; ref.integrate(n*dt)
        a=mk(); a.integrator='trace'; a.dt=dt; a.ri_trace.peri_mode=mode
        a.steps(n)
        assert abs(a.t-n*dt)<1e-9,(a.t,n*dt)
        d=max(math.sqrt((p.x-q.x)**2+(p.y-q.y)**2+(p.z-q.z)**2) for p,q in zip(a.particles,ref.particles))
        errs.append(d)
    print(mode, ['%.2e'%e for e in errs])
