import rebound, math
def run(vcom, integ='trace'):
    sim=rebound.Simulation()
    sim.add(m=1.)
    sim.add(m=1e-3,a=1.,e=0.0)
    sim.add(m=1e-3,a=1.05,e=0.0,f=0.3)   # close encounters between planets
    sim.move_to_com()
    for p in sim.particles:
        p.vx+=vcom
    sim.integrator=integ
    sim.dt=0.05
    com0=sim.com()
    x0=com0.x
    sim.integrate(200.,exact_finish_time=0)
    com=sim.com()
    return com.x-(x0+vcom*sim.t), sim.t
for v in (0.0,0.1,1.0):
    for integ in ('trace','mercurius','whfast'):
        d,t=run(v,integ); print(integ,'vcom',v,'COM x error',d)
