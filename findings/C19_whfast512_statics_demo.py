import sys, os; sys.path.insert(0, os.getcwd())
import rebound
assert rebound.__file__.startswith(os.getcwd())
def mk(mstar):
    sim=rebound.Simulation(); sim.add(m=mstar)
    for i in range(8): sim.add(m=1e-5*(i+1), a=1.+0.3*i, e=0.01*i, f=0.7*i)
    sim.move_to_com(); sim.integrator='whfast512'; sim.dt=0.02; sim.exact_finish_time=0
    return sim
A=mk(1.0)
for _ in range(50): A.step()
A.synchronize(); refx=[p.x for p in A.particles]
A2=mk(1.0); B=mk(3.0)
for _ in range(50):
    A2.step(); B.step()
A2.synchronize(); x=[p.x for p in A2.particles]
bad=sum(1 for a,b in zip(x,refx) if a!=b)
print('coordinates of A that differ when an independent simulation B is stepped in between:',bad,'max diff',max(abs(a-b) for a,b in zip(x,refx)))
sys.exit(1 if bad else 0)
