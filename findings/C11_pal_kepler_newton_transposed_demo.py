import rebound, math, sys
def dev(e, l):
    sim=rebound.Simulation(); sim.add(m=1.)
    pom=0.7
    h=e*math.sin(pom); k=e*math.cos(pom)
    sim.add(m=0., a=1., h=h, k=k, l=l, ix=0., iy=0.)
    sim.add(m=0., a=1., e=e, pomega=pom, l=l)
    p,q=sim.particles[1],sim.particles[2]
    return max(abs(p.x-q.x),abs(p.y-q.y),abs(p.vx-q.vx),abs(p.vy-q.vy))
bad=0
for e in (0.05,0.1,0.2,0.25,0.29,0.299,0.31,0.5):
    d=max(dev(e,l) for l in [0.1*i for i in range(63)])
    print('e=%.3f  max |Pal particle - classical particle| = %.2e'%(e,d))
    if d>1e-12: bad+=1
print('VIOLATION' if bad else 'OK'); sys.exit(1 if bad else 0)
