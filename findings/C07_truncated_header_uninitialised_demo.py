import rebound, os, warnings, sys, subprocess
fn='/tmp/trunc_hdr.bin'; cut='/tmp/trunc_hdr_cut.bin'
if os.path.exists(fn): os.remove(fn)
sim=rebound.Simulation(); sim.add(m=1); sim.add(m=1e-3,a=1); sim.save_to_file(fn); sim.integrate(1); sim.save_to_file(fn)
data=open(fn,'rb').read()
code='''
import rebound, warnings, sys
warnings.simplefilter("always")
with warnings.catch_warnings(record=True) as w:
    try:
        sa=rebound.Simulationarchive(sys.argv[1]); print("opened", len(sa))
    except Exception as e:
        print(type(e).__name__, str(e)[:60])
    print(sorted(str(x.message)[:50] for x in w))
'''
outs=set()
for n in (17,30,48):
    open(cut,'wb').write(data[:n])
    res=set()
    for pert in ('0','85','170','255'):
        env=dict(os.environ, MALLOC_PERTURB_=pert)
        o=subprocess.run([sys.executable,'-c',code,cut],capture_output=True,text=True,env=env,cwd=os.getcwd()).stdout
        res.add(o)
    print(n, 'deterministic' if len(res)==1 else 'DIFFERENT OUTCOMES: %d'%len(res)); 
    for r_ in sorted(res): print('   ', r_.strip().replace('\n',' | '))
