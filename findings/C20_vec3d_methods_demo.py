import rebound, math
v = rebound.Vec3d([3., 0, 4.])
try:
    n = v.normalize()
    print("normalize:", [round(c, 12) for c in n], " length", math.sqrt(sum(c*c for c in n)))
except Exception as e:
    print("normalize raised", repr(e))
w = rebound.Vec3d([1., 0, 0])
try:
    r = w.rotate(rebound.Rotation(angle=math.pi/2, axis=[0, 0, 1]))
    print("rotate   :", [round(c, 12) for c in r], " expected [0, 1, 0]; same as q*v:", [round(c, 12) for c in rebound.Rotation(angle=math.pi/2, axis=[0,0,1])*[1.,0,0]])
except Exception as e:
    print("rotate raised", repr(e))
