import rebound, math, sys
def rt(O,i,o):
    q=rebound.Rotation.orbit(Omega=O,inc=i,omega=o)
    O2,i2,o2=q.orbital()
    q2=rebound.Rotation.orbit(Omega=O2,inc=i2,omega=o2)
    return math.sqrt(min(sum((a-b)**2 for a,b in zip((q.ix,q.iy,q.iz,q.r),(s*q2.ix,s*q2.iy,s*q2.iz,s*q2.r))) for s in (1,-1)))
bad=0
for args in [(0.3,math.pi,0.5),(1.0,math.pi,0.2),(5.0,math.pi,2.5),(0.3,math.pi-1e-9,0.5),(0.3,0.0,0.5),(2.0,0.0,-1.0),(0.3,1.0,0.5),(4.0,2.5,5.5)]:
    d=rt(*args); print(args,'|q - q(orbital(q))| = %.3g'%d)
    if d>1e-7: bad+=1
print('VIOLATION' if bad else 'OK'); sys.exit(1 if bad else 0)
