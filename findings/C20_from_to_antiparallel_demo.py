import rebound, math, sys
bad=0
for f in ([1,1,1],[1,2,3],[0.3,-0.2,0.9],[1,0,0],[0,0,-2]):
    t=[-x for x in f]
    q=rebound.Rotation.from_to(f,t)
    n2=q.ix**2+q.iy**2+q.iz**2+q.r**2
    v=q*f
    err=max(abs(a-b) for a,b in zip(v,t))
    print(f, 'norm2=%.16g'%n2, 'max |q*from - to| = %.3g'%err)
    if abs(n2-1)>1e-14 or err>1e-14: bad+=1
print('VIOLATION' if bad else 'OK'); sys.exit(1 if bad else 0)
