import sys, os
sys.path.insert(0, os.getcwd())
import rebound, warnings
print(rebound.__file__)
sim=rebound.Simulation()
sim.add(m=1.); sim.add(m=1e-3,a=1.); sim.add(m=1e-3,a=1.4,f=1.)
sim.integrator='whfast'; sim.dt=0.05
v=sim.add_variation()
for p in v.particles: p.x=3e100
with warnings.catch_warnings(record=True) as w:
    warnings.simplefilter('always')
    sim.step()
    print('warnings:', [str(x.message)[:90] for x in w], 'lrescale', v.lrescale)
