import rebound, signal
def handler(s,f): raise TimeoutError
signal.signal(signal.SIGALRM, handler)
sim=rebound.Simulation()
sim.add(m=1.); sim.add(m=1e-3,a=1.)
sim.integrator='leapfrog'; sim.dt=0.01
sim.configure_box(10.)
sim.boundary='periodic'
v=sim.add_variation()
v.particles[1].x=1e30      # a tangent vector, not a position
before=v.particles[1].x
signal.alarm(10)
try:
    sim.step()
    print('variational x before %.3f after %.3f'%(before, v.particles[1].x), 'N', sim.N)
except TimeoutError:
    print('step did not return within 10 s')
sim2=rebound.Simulation()
sim2.add(m=1.); sim2.add(m=1e-3,a=1.)
sim2.integrator='leapfrog'; sim2.dt=0.01
sim2.configure_box(10.); sim2.boundary='open'
v2=sim2.add_variation(); v2.particles[1].x=30.
sim2.step()
print('open boundary: N=%d N_var=%d (started with 2 real + 2 variational)'%(sim2.N, sim2.N_var))
