"""Semi-active test particles (N_active < N, testparticle_type = 1) feel and act on the active bodies and do not interact
with each other. REB_GRAVITY_JACOBI - the routine the WHFast kernels MODIFIEDKICK and LAZY switch to - and the jerk of the
modified kick summed the direct term over all pairs, test-test pairs included, so these kernels integrated a different
system than kernel DEFAULT / IAS15 (REB_GRAVITY_BASIC): the difference does not shrink with the step. Exit 1 when a kernel
is further than 1e-8 from the IAS15 solution of the specified system (the default kernel is at 5e-10, the high-order
kernels at 1e-13)."""
import sys
import warnings
import rebound

warnings.simplefilter("ignore")


def mk():
    sim = rebound.Simulation()
    sim.add(m=1.)
    sim.add(m=1e-3, a=1., e=0.05)
    sim.add(m=1e-4, a=1.8, e=0.1, f=1.)
    sim.add(m=1e-4, a=2.9, e=0.1, f=3.05)
    sim.N_active = 2
    sim.testparticle_type = 1
    sim.move_to_com()
    return sim


def err(dt, kernel):
    sim = mk()
    sim.integrator = "whfast"
    sim.ri_whfast.kernel = kernel
    sim.ri_whfast.corrector = 17
    sim.ri_whfast.safe_mode = 0
    sim.dt = dt
    sim.integrate(5., exact_finish_time=0)
    sim.synchronize()
    ref = mk()
    ref.integrator = "ias15"
    ref.ri_ias15.epsilon = 1e-11
    ref.integrate(sim.t)
    return max(abs(a - b) for p, q in zip(sim.particles, ref.particles) for a, b in zip(p.xyz, q.xyz))


bad = 0
for kernel in ("default", "composition", "modifiedkick", "lazy"):
    e1, e2 = err(0.04, kernel), err(0.02, kernel)
    ok = e2 < 1e-8
    print("kernel=%-13s distance from the IAS15 solution %.2e (dt=0.04) %.2e (dt=0.02)  %s" % (kernel, e1, e2, "ok" if ok else "FAIL: does not converge to the specified system"))
    bad += not ok
sys.exit(1 if bad else 0)
