import rebound
def run(first):
    sim=rebound.Simulation()
    sim.add(m=1.); sim.add(m=1e-3,a=1.); sim.add(m=1e-3,a=2.)
    sim.dt=0.01
    if first:
        sim.integrator=first
        sim.integrate(0.1)
    else:
        sim.integrator="ias15"; sim.integrate(0.1)
    sim.integrator="whfast"
    sim.integrate(10.)
    return sim.particles[1].x, sim.particles[1].y, sim.N_odes if hasattr(sim,'N_odes') else sim._N_odes
print('ias15 then whfast:', run(None))
print('bs    then whfast:', run('bs'))
