"""EOS with a modified-kick outer scheme (phi0 = PMLF4 / PMLF6, advertised order 4 / 6) and semi-active test particles
(testparticle_type = 1: they feel and act on the active bodies and do not interact with each other).
reb_calculate_and_apply_jerk ran its test-particle loop over all j<i, test-test pairs included, so the jerk correction
belonged to a different force than the kick it corrects: the scheme fell back to second order (error ratio 4.0 per halving
of dt, 3e-8 instead of 1e-12 at dt = 0.04). Reference: IAS15 with epsilon = 1e-11 at the same time. Exit 1 when the
error does not fall at least 8-fold per halving (or is above 1e-9 at dt = 0.04)."""
import sys
import warnings
import rebound

warnings.simplefilter("ignore")


def mk():
    sim = rebound.Simulation()
    sim.add(m=1.)
    sim.add(m=1e-3, a=1., e=0.05)
    sim.add(m=1e-4, a=1.8, e=0.1, f=1.)
    sim.add(m=1e-4, a=1.83, e=0.1, f=1.05)        # two test particles close to each other
    sim.N_active = 2
    sim.testparticle_type = 1
    sim.move_to_com()
    return sim


def err(dt, phi0):
    sim = mk()
    sim.integrator = "eos"
    sim.ri_eos.phi0 = phi0
    sim.ri_eos.phi1 = "lf8"
    sim.ri_eos.n = 4
    sim.dt = dt
    sim.integrate(5., exact_finish_time=0)
    ref = mk()
    ref.integrator = "ias15"
    ref.ri_ias15.epsilon = 1e-11
    ref.integrate(sim.t)
    return max(abs(a - b) for p, q in zip(sim.particles, ref.particles) for a, b in zip(p.xyz, q.xyz))


bad = 0
for phi0, order in (("lf4", 4), ("pmlf4", 4)):
    e1, e2 = err(0.08, phi0), err(0.04, phi0)
    ok = e2 < 1e-9 and e1 / e2 > 8.
    print("phi0=%-6s error %.2e at dt=0.08, %.2e at dt=0.04, ratio %.1f (order %d wants 16)  %s" % (phi0, e1, e2, e1 / e2, order, "ok" if ok else "FAIL"))
    bad += not ok
e = err(0.04, "pmlf6")
ok = e < 1e-10
print("phi0=pmlf6  error %.2e at dt=0.04 %s" % (e, "ok" if ok else "FAIL"))
bad += not ok
sys.exit(1 if bad else 0)
