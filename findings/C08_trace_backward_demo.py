import rebound, math
def mk(flip):
    sim=rebound.Simulation()
    sim.add(m=1)
    sim.add(m=3e-4,a=1.0)
    sim.add(m=3e-4,a=1.03,f=0.12)
    sim.move_to_com()
    if flip:
        for p in sim.particles: p.vx,p.vy,p.vz=-p.vx,-p.vy,-p.vz
    return sim
def run(integ, T=30.):
    ref=mk(False); ref.integrator='ias15'; ref.integrate(T)
    a=mk(False); a.integrator=integ; a.dt=0.05; a.integrate(T)
    b=mk(True); b.integrator=integ; b.dt=-0.05; b.integrate(-T)
    def d(s1,s2): return max(math.sqrt((p.x-q.x)**2+(p.y-q.y)**2+(p.z-q.z)**2) for p,q in zip(s1.particles,s2.particles))
    return d(a,ref), d(b,ref), d(a,b)
for integ in ('trace','mercurius','ias15','whfast'):
    print(integ, 'fwd-vs-ref %.2e  bwd(mirrored)-vs-ref %.2e  fwd-vs-bwd %.2e'%run(integ))
