import rebound
sim = rebound.Simulation()
sim.add(m=1); sim.add(m=1e-3,a=1); sim.add(m=1e-3,a=2)
sim.integrator="saba"
sim.ri_saba.keep_unsynchronized=1; sim.ri_saba.safe_mode=0
sim.dt=0.01
sim.integrate(sim.t)
print("ok1")
sim.integrate(1.0)
sim.integrate(sim.t)
print("ok2", sim.t)
