import rebound
def mk():
    sim = rebound.Simulation()
    sim.rand_seed = 1
    sim.integrator = "ias15"
    sim.add(m=1.)
    for k in range(4):
        sim.add(m=1e-3, a=1.+0.4*k, e=0.05*k, f=0.7*k)
    sim.move_to_com()
    sim.integrate(3.)
    sim.remove(4)            # spare capacity in the IAS15 arrays from now on
    sim.integrate(6.)
    return sim
a = mk()                      # never copied
b = mk(); c = b.copy()        # copied once (the copy itself is thrown away)
for s in (a, b):
    s.add(m=1e-3, a=3.1, f=2.)
    s.integrate(12.)
print("twin that was copied once vs twin that was not, after add + integrate:")
a.diff(b)
print("max |dx| = %.3e" % max(abs(p.x-q.x) for p, q in zip(a.particles, b.particles)))
