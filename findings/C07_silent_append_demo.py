import rebound, os, shutil, warnings
fn='/tmp/probe/cut.sa'
def mk():
    sim=rebound.Simulation(); sim.add(m=1.); sim.add(m=1e-3,a=1.); sim.integrator='whfast'; sim.dt=0.1
    return sim
for cut in (1,5,8,11,12,13,20):
    if os.path.exists(fn): os.remove(fn)
    sim=mk(); sim.save_to_file(fn)
    size=os.path.getsize(fn)
    with open(fn,'r+b') as f: f.truncate(size-cut)
    res=[]
    with warnings.catch_warnings(record=True) as w:
        warnings.simplefilter('always')
        try:
            sa=rebound.Simulationarchive(fn); res.append('opens with %d'%len(sa))
            s2=sa[-1]; s2.integrate(1.)
            try:
                s2.save_to_file(fn); 
                sa2=rebound.Simulationarchive(fn); res.append('after append %d'%len(sa2))
            except Exception as e: res.append('append: %s %s'%(type(e).__name__, str(e)[:60]))
        except Exception as e:
            res.append('open: %s %s'%(type(e).__name__, str(e)[:60]))
        res.append('warn=%s'%[str(x.message)[:50] for x in w])
    print('cut %2d bytes of %d:'%(cut,size), '; '.join(res))
