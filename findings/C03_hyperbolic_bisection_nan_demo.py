import rebound
cases=[((-3.5733540866564986,-10.79985573486934,0.33989248710458825,0.24559709743285166),2837436.141314841),
       ((-1679.386218424385,-622.1627235113305,0.03336271735688181,0.0061595809225262555),422659557.25147045)]
def run(integ,c,dt):
    sim=rebound.Simulation()
    sim.add(m=1.)
    sim.add(m=0.,x=c[0],y=c[1],vx=c[2],vy=c[3])
    sim.integrator=integ
    if integ!='ias15':
        sim.dt=dt; sim.step()
    else:
        sim.integrate(dt)
    p=sim.particles[1]
    return p.x,p.y,p.vx,p.vy
bad=0
for c,dt in cases:
    for sgn in (1,-1):
        a=run('whfast',c,sgn*dt); b=run('ias15',c,sgn*dt)
        rel=max(abs(x-y) for x,y in zip(a[:2],b[:2]))/max(abs(b[0]),abs(b[1]))
        print('dt=%+.3e whfast=(%.6f,%.6f) ias15=(%.6f,%.6f) rel=%.1e'%(sgn*dt,a[0],a[1],b[0],b[1],rel))
        if rel>1e-9: bad+=1
raise SystemExit(1 if bad else 0)
