import rebound, os
def mk():
    sim = rebound.Simulation()
    sim.integrator = "whfast"; sim.dt = 0.01
    sim.add(m=1.); sim.add(m=1e-3, a=1., e=0.1); sim.add(m=1e-3, a=2.)
    return sim
bad = 0
for trial in range(20):
    # perturb the heap so that fresh allocations are not zero pages
    junk = [bytearray(os.urandom(4096)) for _ in range(50)]; del junk
    sim = mk()
    if os.path.exists("pjh.bin"): os.remove("pjh.bin")
    sim.save_to_file("pjh.bin")
    sim2 = rebound.Simulation("pjh.bin")
    sim.steps(5); sim2.steps(5)
    same_coords = all(p.x == q.x and p.vx == q.vx for p, q in zip(sim.particles, sim2.particles))
    eq = (sim == sim2)
    if same_coords and not eq:
        bad += 1
        if bad == 1:
            sim.diff(sim2)
print("coordinates identical but '==' False in %d of 20 trials" % bad)
