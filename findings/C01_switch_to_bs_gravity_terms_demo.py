import rebound
def run(first, second):
    sim = rebound.Simulation()
    sim.add(m=1.); sim.add(m=1e-3, a=1., e=0.1); sim.add(m=1e-3, a=2.3, e=0.05, inc=0.1)
    sim.move_to_com()
    sim.dt = 0.05
    E0 = sim.energy()
    sim.integrator = first
    sim.integrate(1.)
    sim.integrator = second
    sim.integrate(20.)
    return abs((sim.energy()-E0)/E0)
for first in ("ias15", "whfast", "saba", "eos", "leapfrog"):
    for second in ("bs", "mercurius", "trace", "leapfrog", "ias15"):
        print("%-9s -> %-9s relative energy error %.2e" % (first, second, run(first, second)))
