"""A particle with a coordinate exactly equal to +boxsize/2 is inside the box (the boundary tests are strict), but with
more than one root box along that axis reb_get_rootbox_for_particle wrapped its root index to box 0 on the opposite side.
The tree then held the particle in a cell that does not contain it and the next tree update recursed until the stack was
gone. Runs the scenario in a child process; exit 1 if the child dies or loses a particle."""
import subprocess
import sys

CHILD = r'''
import rebound, sys
sim = rebound.Simulation()
sim.configure_box(2., 2, 1, 1)          # box [-2,2] x [-1,1]^2, two root boxes along x
sim.boundary = sys.argv[1]
sim.gravity = "tree"
sim.integrator = "leapfrog"
sim.dt = 1e-3
sim.add(m=1., x=-1.5, y=0.1, z=0.1)
sim.add(m=1e-3, x=2., y=0.2, z=-0.3)    # exactly on the +x face
sim.add(m=1e-3, x=1.5, y=0.2, z=-0.3)
for i in range(5):
    sim.step()
print("N", sim.N)
sys.exit(0 if sim.N == 3 else 3)
'''
bad = 0
for b in ("open", "periodic"):
    p = subprocess.run([sys.executable, "-c", CHILD, b], capture_output=True, text=True)
    print("boundary=%-8s child exit %d %s" % (b, p.returncode, p.stdout.strip()))
    if p.returncode != 0:
        bad += 1
if bad:
    print("FAIL: a particle on the upper face of the box crashes the tree update")
sys.exit(1 if bad else 0)
