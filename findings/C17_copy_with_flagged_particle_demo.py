import rebound
sim = rebound.Simulation()
sim.gravity = "tree"; sim.integrator = "leapfrog"; sim.dt = 0.01
sim.configure_box(10.)
for k in range(4):
    sim.add(m=1e-3, x=0.5*k-1., y=0.3*k, vx=0.1*k)
sim.step()
print("before removal: copy equal:", sim.copy() == sim)
sim.remove(1, keep_sorted=False)          # with a tree the particle is only flagged (y = nan) until the next tree update
print("flagged state : y =", [p.y for p in sim.particles], " N =", sim.N)
cp = sim.copy()
print("after removal : copy equal:", cp == sim)
import io, contextlib
sim.step(); cp.step()
print("after a step  : copy equal:", cp == sim, " N =", sim.N, cp.N)
