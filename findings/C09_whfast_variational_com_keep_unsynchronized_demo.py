import rebound, math
def run(safe, keep):
    sim=rebound.Simulation()
    sim.add(m=1.); sim.add(m=1e-3,a=1.,e=0.1); sim.add(m=1e-3,a=2.)
    sim.move_to_com()
    sim.integrator="whfast"; sim.dt=0.05
    sim.ri_whfast.safe_mode=safe; sim.ri_whfast.keep_unsynchronized=keep
    var=sim.add_variation()
    var.particles[1].vy=1.
    for i in range(50):
        sim.step()
    sim.ri_whfast.keep_unsynchronized=0
    sim.synchronize()
    return [ (p.x,p.y,p.z) for p in var.particles ]
ref=run(1,0)
for safe,keep in ((0,0),(0,1)):
    got=run(safe,keep)
    d=max(abs(a-b) for p,q in zip(ref,got) for a,b in zip(p,q))
    print('safe_mode=%d keep_unsynchronized=%d: max deviation of variational positions from safe mode = %.3g'%(safe,keep,d))
