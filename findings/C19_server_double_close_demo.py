"""Double close in the REBOUND web server thread: fclose(stream) closes the accepted descriptor, close(childfd) closes the
same NUMBER again. If another thread opened a file in between, that file is closed under its feet."""
import rebound, time, urllib.request, sys, os, threading, tempfile
sim=rebound.Simulation(); sim.add(m=1); sim.add(m=1e-3,a=1)
sim.start_server(port=12346)
time.sleep(0.5)
stop=False
def client():
    while not stop:
        try: urllib.request.urlopen("http://localhost:12346/keyboard/0", timeout=2).read()
        except Exception: pass
ts=[threading.Thread(target=client) for _ in range(4)]
for t in ts: t.start()
tmp=tempfile.mkstemp()[1]
lost=0; n=0
t0=time.time()
while time.time()-t0<20 and lost==0:
    fd=os.open(tmp, os.O_WRONLY)
    n+=1
    try:
        for _ in range(50): os.fstat(fd)
        os.write(fd,b'x')
        os.close(fd)
    except OSError as e:
        lost+=1; print("after %d opens: descriptor %d opened by the main thread was closed by the server thread: %s"%(n,fd,e))
stop=True
for t in ts: t.join()
sim.stop_server(); os.unlink(tmp)
print("VIOLATION" if lost else "no interference seen in %d opens"%n); sys.exit(1 if lost else 0)
