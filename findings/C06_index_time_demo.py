import rebound, os
fn='/tmp/probe/t.sa'
if os.path.exists(fn): os.remove(fn)
sim=rebound.Simulation(); sim.add(m=1.); sim.add(m=1e-3,a=1.); sim.integrator='whfast'; sim.dt=0.1
sim.t=5.0
sim.save_to_file(fn)          # snapshot 0 at t=0
sim.integrate(6.0); sim.save_to_file(fn)   # snapshot 1 at t=1
sim.t=5.0
sim.save_to_file(fn)          # snapshot 2 again at t=0 (same as snapshot 0)
sim.t=7.0; sim.save_to_file(fn)
sa=rebound.Simulationarchive(fn)
print('nblobs',len(sa))
print('index times :', [sa.t[i] for i in range(len(sa))])
print('loaded times:', [sa[i].t for i in range(len(sa))])
print('tmin,tmax', sa.tmin, sa.tmax)
