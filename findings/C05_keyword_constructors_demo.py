import rebound, os
sim = rebound.Simulation(); sim.add(m=1.); sim.add(m=1e-3, a=1.); sim.integrate(1.)
if os.path.exists("kw.bin"): os.remove("kw.bin")
sim.save_to_file("kw.bin")
a = rebound.Simulation("kw.bin")
b = rebound.Simulation(filename="kw.bin")
c = rebound.Simulation.from_file("kw.bin")
print("positional: N=%d t=%g | filename=: N=%d t=%g | from_file: N=%d t=%g" % (a.N, a.t, b.N, b.t, c.N, c.t))
try:
    d = rebound.Simulation.from_simulationarchive(rebound.Simulationarchive("kw.bin"))
    print("from_simulationarchive: N=%d t=%g" % (d.N, d.t))
except Exception as e:
    print("from_simulationarchive raised", repr(e))
