import rebound, math
def L(sim):
    l=sim.angular_momentum(); return l
for coords in ('jacobi','democraticheliocentric','whds','barycentric'):
    sim=rebound.Simulation()
    sim.add(m=1.); sim.add(m=1e-3,a=1.,e=0.1,inc=0.2); sim.add(m=5e-4,a=1.8,e=0.05,inc=0.1,Omega=1.)
    sim.move_to_com()
    sim.integrator='whfast'; sim.ri_whfast.coordinates=coords; sim.dt=2*math.pi/50
    L0=L(sim); E0=sim.energy()
    sim.integrate(200.)
    L1=L(sim)
    print(coords, 'dL/L=%.2e'%(math.sqrt(sum((a-b)**2 for a,b in zip(L0,L1)))/math.sqrt(sum(a*a for a in L0))), 'dE/E=%.2e'%abs((sim.energy()-E0)/E0))
