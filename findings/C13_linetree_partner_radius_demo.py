import rebound, numpy as np
def run(coll):
    sim=rebound.Simulation()
    sim.G=0; sim.integrator='leapfrog'; sim.dt=1e-3
    sim.configure_box(40.)
    sim.gravity='none'
    sim.collision=coll
    hits=[]
    def res(sim_p,c):
        hits.append((c.p1,c.p2)); return 0
    sim.collision_resolve=res
    # two big spheres overlapping and approaching
    sim.add(m=1,r=1.0,x=-0.95,y=0.3,z=0.2,vx=0.01)
    sim.add(m=1,r=1.0,x=0.95,y=0.3,z=0.2,vx=-0.01)
    # clusters of tiny particles next to each big sphere to refine the tree
    rng=np.random.default_rng(1)
    for cx in (-0.95,0.95):
        for k in range(6):
            d=rng.normal(size=3)*1e-3
            sim.add(m=0,r=1e-9,x=cx+d[0]+2e-3,y=0.3+d[1],z=0.2+d[2])  # far in z so they do not collide with the spheres
    # extra tiny particles very near the centres but not overlapping? they are inside sphere radius -> would collide; place them with zero radius
    sim.step()
    return sorted(set(tuple(sorted(h)) for h in hits))
for c in ('direct','line','tree','linetree'):
    print(c, run(c))
